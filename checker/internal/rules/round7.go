package rules

import (
	"fmt"
	"go/token"
	"go/types"
	"sort"
	"strings"

	"golang.org/x/tools/go/ssa"

	"gpcheck/internal/an"
)

// Rules added after the seventh seeding round.

// transientSources: library calls whose []byte result is a window into a
// buffer the library overwrites on the next read.
var transientSources = []string{
	"(*bufio.Scanner).Bytes",
	"(*bufio.Reader).ReadSlice",
	"(*bufio.Reader).ReadLine",
	"(*bufio.Reader).Peek",
}

// copyingLibraryCalls: library functions whose reference-carrying result
// shares no memory with their arguments.
var copyingLibraryCalls = []string{
	"bytes.Clone", "bytes.Join", "bytes.Repeat", "bytes.ToLower", "bytes.ToUpper", "bytes.ToTitle",
	"bytes.Replace", "bytes.ReplaceAll", "bytes.Map", "slices.Clone", "bytes.ToValidUTF8",
	"fmt.Errorf", "fmt.Sprintf", "fmt.Sprint", "fmt.Sprintln", "errors.New",
}

// noTransientBufferRetained: the text gopatch keeps of a patch (section lines,
// names, the '-' and '+' versions) or of a source file is never a window into a
// buffered reader's buffer. `bufio.Scanner.Bytes`, `bufio.Reader.ReadSlice`,
// `ReadLine` and `Peek` return a slice that the next read overwrites; so does
// `bytes.Buffer.Bytes`/`Next` of a buffer that is later `Reset` or truncated.
// Such a slice may be inspected, converted to a string or copied, but not
// stored in a field, a slice element, a map or a channel, nor returned to a
// caller that does so: for an input larger than the reader's buffer (4096 bytes
// for a Scanner) the lines read first would silently turn into the bytes that
// follow later in the file — the '+' side of an early change would become the
// text of a later one.
func noTransientBufferRetained(r *an.Run, rule string) {
	r.Rule(rule)
	nReads, nSources := 0, 0
	for _, f := range r.P.ModuleFuncs() {
		if f.Blocks == nil {
			continue
		}
		// buffers of this function that are rewound
		rewound := map[ssa.Value]bool{}
		rewoundPath := map[string]bool{}
		for _, c := range an.Calls(f) {
			if an.IsCallTo(c, "(*bytes.Buffer).Reset", "(*bytes.Buffer).Truncate") {
				recv := c.Common().Args[0]
				rewound[an.Root(recv)] = true
				if p := an.Path(recv); p != "" {
					rewoundPath[p] = true
				}
			}
		}
		for _, c := range an.Calls(f) {
			call, ok := c.(*ssa.Call)
			if !ok {
				continue
			}
			switch {
			case an.IsCallTo(c, "(*bufio.Scanner).Text", "(*bufio.Reader).ReadString", "(*bufio.Reader).ReadBytes", "(*bufio.Scanner).Scan"):
				nReads++
				continue
			case an.IsCallTo(c, transientSources...):
			case an.IsCallTo(c, "(*bytes.Buffer).Bytes", "(*bytes.Buffer).Next"):
				recv := c.Common().Args[0]
				if !rewound[an.Root(recv)] && !(an.Path(recv) != "" && rewoundPath[an.Path(recv)]) {
					continue
				}
			default:
				continue
			}
			nReads++
			nSources++
			var src ssa.Value = call
			if _, isTuple := call.Type().(*types.Tuple); isTuple {
				src = nil
				for _, u := range *call.Referrers() {
					if ex, ok := u.(*ssa.Extract); ok && ex.Index == 0 {
						src = ex
					}
				}
				if src == nil {
					continue
				}
			}
			t := &taint{r: r, seen: map[ssa.Value]bool{}}
			if ld, ok := c.Common().Args[0].(*ssa.UnOp); ok {
				if fa, ok := ld.X.(*ssa.FieldAddr); ok {
					t.owner = derefType(fa.X.Type())
				}
			} else if fa, ok := c.Common().Args[0].(*ssa.FieldAddr); ok {
				t.owner = derefType(fa.X.Type())
			}
			t.follow(src, 0)
			key := short(f) + "|" + lastSegment(an.CalleeName(c))
			if t.where != nil {
				r.Fail(key+"|retained", t.where.Pos(), "the slice %s returns in %s is a window into the reader's buffer, which the next read overwrites; it %s (in %s) — the text kept there changes under gopatch's feet once the input is larger than the buffer. Copy it (string(b), bytes.Clone(b), append([]byte(nil), b...)) before keeping it", an.TrimModule(an.CalleeName(c)), short(f), t.how, short(t.where.Parent()))
			} else {
				r.Pass(key+"|not-retained", call.Pos(), "the slice %s returns is only inspected, converted or copied (%d uses followed)", an.TrimModule(an.CalleeName(c)), len(t.seen))
			}
		}
	}
	r.Count("reads from buffered readers", nReads)
	r.Min("reads from buffered readers", 1)
	r.Pass("transient-buffer-inventory", 0, "%d reads from buffered readers in the module, %d of which hand out a window into the reader's buffer; none of those windows is kept", nReads, nSources)
}

type taint struct {
	r *an.Run
	// owner: the struct type that holds the reader, when the reader is a field
	owner types.Type
	seen  map[ssa.Value]bool
	where ssa.Instruction
	how   string
}

func (t *taint) escape(at ssa.Instruction, how string) {
	if t.where == nil {
		t.where, t.how = at, how
	}
}

func (t *taint) follow(v ssa.Value, depth int) {
	if t.seen[v] || t.where != nil {
		return
	}
	t.seen[v] = true
	refs := v.Referrers()
	if refs == nil {
		return
	}
	for _, u := range *refs {
		switch u := u.(type) {
		case *ssa.DebugRef, *ssa.If, *ssa.BinOp, *ssa.Index, *ssa.Lookup, *ssa.Range:
		case *ssa.IndexAddr:
			// reading (or overwriting) single bytes of the window
		case *ssa.Slice:
			if u.X == v {
				t.follow(u, depth)
			}
		case *ssa.Phi, *ssa.ChangeType, *ssa.MakeInterface, *ssa.ChangeInterface, *ssa.TypeAssert, *ssa.SliceToArrayPointer:
			t.follow(u.(ssa.Value), depth)
		case *ssa.Extract:
			t.follow(u, depth)
		case *ssa.Convert:
			if b, ok := u.Type().Underlying().(*types.Basic); ok && b.Info()&types.IsString != 0 {
				continue // string(b) copies
			}
			t.follow(u, depth)
		case *ssa.Store:
			if u.Val != v {
				continue // a write into the window
			}
			if al, ok := u.Addr.(*ssa.Alloc); ok {
				// a local variable: what is loaded from it is the window again
				t.seen[al] = true
				for _, w := range *al.Referrers() {
					switch w := w.(type) {
					case *ssa.UnOp:
						if w.Op == token.MUL {
							t.follow(w, depth)
						}
					case *ssa.Store, *ssa.DebugRef:
					default:
						if mc, ok := w.(*ssa.MakeClosure); ok {
							t.escape(mc, "is captured by a function literal")
						} else if _, isCall := w.(ssa.CallInstruction); isCall {
							t.escape(w, "is handed out by address")
						}
					}
				}
				continue
			}
			// the reader's owner may cache the current window next to the reader (`p.text = p.lines.Bytes()`):
			// what is loaded from that field is the window again
			if fa, ok := u.Addr.(*ssa.FieldAddr); ok && t.owner != nil && types.Identical(derefType(fa.X.Type()), t.owner) {
				for _, g := range t.r.P.ModuleFuncs() {
					for _, b := range g.Blocks {
						for _, in := range b.Instrs {
							fb, ok := in.(*ssa.FieldAddr)
							if !ok || fb.Field != fa.Field || !types.Identical(derefType(fb.X.Type()), t.owner) {
								continue
							}
							for _, w := range *fb.Referrers() {
								if ld, ok := w.(*ssa.UnOp); ok && ld.Op == token.MUL {
									t.follow(ld, depth)
								}
							}
						}
					}
				}
				continue
			}
			t.escape(u, "is stored in "+describeAddr(u.Addr))
		case *ssa.MapUpdate:
			t.escape(u, "is stored in a map")
		case *ssa.Send:
			t.escape(u, "is sent on a channel")
		case *ssa.MakeClosure:
			t.escape(u, "is captured by a function literal")
		case *ssa.Return:
			if depth >= 3 {
				t.escape(u, "is returned through more than three callers")
				continue
			}
			idx := -1
			for i, res := range u.Results {
				if res == v {
					idx = i
				}
			}
			f := u.Parent()
			callers := t.r.P.CallersOf(f)
			if len(callers) == 0 && f.Object() != nil && f.Object().Exported() {
				t.escape(u, "is returned by an exported function")
				continue
			}
			for _, c := range callers {
				cv := c.Value()
				if cv == nil {
					continue
				}
				if len(u.Results) == 1 {
					t.follow(cv, depth+1)
					continue
				}
				for _, w := range *cv.Referrers() {
					if ex, ok := w.(*ssa.Extract); ok && ex.Index == idx {
						t.follow(ex, depth+1)
					}
				}
			}
		case ssa.CallInstruction:
			t.call(u, v, depth)
		default:
			t.escape(u, "is used in a way the rule does not follow ("+strings.TrimPrefix(strings.TrimPrefix(typeName(u), "*ssa."), "ssa.")+")")
		}
	}
}

func (t *taint) call(c ssa.CallInstruction, v ssa.Value, depth int) {
	com := c.Common()
	if _, isGo := c.(*ssa.Go); isGo {
		t.escape(c, "is handed to a goroutine")
		return
	}
	if b, ok := com.Value.(*ssa.Builtin); ok {
		switch b.Name() {
		case "append":
			if com.Args[0] == v {
				if val := c.Value(); val != nil {
					t.follow(val, depth) // same backing array
				}
			}
			// append(dst, b...) copies the bytes; an element append goes through the varargs store
		}
		return
	}
	if com.IsInvoke() {
		if com.Method.Name() == "Write" || com.Method.Name() == "WriteString" || com.Method.Name() == "Error" {
			return // io.Writer must not retain p
		}
		t.escape(c, "is handed to the dynamically dispatched method "+com.Method.Name())
		return
	}
	callee := com.StaticCallee()
	if callee == nil {
		t.escape(c, "is handed to a function value")
		return
	}
	if an.InModule(callee) && callee.Blocks != nil {
		if depth >= 3 {
			t.escape(c, "is handed down more than three calls")
			return
		}
		for i, a := range com.Args {
			if a == v && i < len(callee.Params) {
				t.follow(callee.Params[i], depth+1)
			}
		}
		return
	}
	// library: writers copy; anything that returns a reference may share the window
	name := an.CalleeName(c)
	if an.IsCallTo(c, copyingLibraryCalls...) {
		return
	}
	switch {
	case strings.HasSuffix(name, ".Write"), strings.HasSuffix(name, ".WriteString"), strings.HasPrefix(name, "fmt.Fprint"), strings.HasPrefix(name, "(*log.Logger)."), strings.HasPrefix(name, "log."):
		return
	}
	val := c.Value()
	if val == nil {
		return
	}
	res := callee.Signature.Results()
	shares := false
	for i := 0; i < res.Len(); i++ {
		rt := res.At(i).Type()
		if b, ok := rt.Underlying().(*types.Basic); ok && b.Info()&types.IsString != 0 {
			continue
		}
		if an.IsErrorType(rt) {
			continue
		}
		if hasReference(rt) {
			shares = true
		}
	}
	if shares {
		t.follow(val, depth)
	}
}

func describeAddr(a ssa.Value) string {
	switch x := a.(type) {
	case *ssa.FieldAddr:
		return "field " + fieldNameOf(x)
	case *ssa.IndexAddr:
		return "an element of a slice or array"
	case *ssa.Global:
		return "package variable " + x.Name()
	}
	return "memory that outlives the read"
}

func typeName(v interface{}) string {
	switch v.(type) {
	case *ssa.Defer:
		return "defer"
	case *ssa.Select:
		return "select"
	case *ssa.Next:
		return "range"
	}
	return fmt.Sprintf("%T", v)
}

func derefType(t types.Type) types.Type {
	if p, ok := t.Underlying().(*types.Pointer); ok {
		return p.Elem()
	}
	return t
}

// whoInterpretsAnElision (C04-R15): what a "..." stands for, how the run it
// skipped is recorded and how it is reproduced is defined per construct — the
// three list types (through the elision tests handed to compileSliceDots,
// which the rules R2–R7 decide), the header of a `for ...` (R8) and the
// implicit elision around a statement list (R9). So in package engine a
// *pgo.Dots node is recognised (by a type assertion or a type switch) only
//
//   - in a function handed to compileSliceDots as its elision test,
//   - in compileForStmt of either compiler or a private helper of it,
//   - in the helper group of the functions that create the implicit elision.
//
// A further place that interprets "..." is a further elision construct, for
// which none of the rules of this property speaks (does it reproduce what it
// skipped? on both sides?): it is reported for review.
func whoInterpretsAnElision(r *an.Run, rule string) {
	r.Rule(rule)
	isDotsType := func(t types.Type) bool {
		if p, ok := t.(*types.Pointer); ok {
			t = p.Elem()
		}
		return an.IsNamed(t, an.Module+"/internal/pgo", "Dots")
	}
	allowed := map[*ssa.Function]string{}
	fns := r.P.PkgFuncs(engine)
	for _, f := range fns {
		for _, c := range an.Calls(f) {
			if !strings.HasSuffix(an.CalleeName(c), "compileSliceDots") || len(c.Common().Args) == 0 {
				continue
			}
			last := c.Common().Args[len(c.Common().Args)-1]
			for {
				if ct, ok := last.(*ssa.ChangeType); ok {
					last = ct.X
					continue
				}
				break
			}
			switch v := last.(type) {
			case *ssa.Function:
				allowed[v] = "elision test of a list type"
			case *ssa.MakeClosure:
				if g, ok := v.Fn.(*ssa.Function); ok {
					allowed[g] = "elision test of a list type"
				}
			}
		}
	}
	for _, name := range []string{"matcherCompiler.compileForStmt", "replacerCompiler.compileForStmt"} {
		if f := r.P.Func(engine, name); f != nil {
			for _, g := range helperGroup(f, 2) {
				if _, ok := allowed[g]; !ok {
					allowed[g] = "header test of for ..."
				}
			}
		}
	}
	// the implicit elision: whoever creates a Dots node, and the helper group of its callers
	for _, f := range fns {
		creates := false
		for _, b := range f.Blocks {
			for _, in := range b.Instrs {
				if al, ok := in.(*ssa.Alloc); ok && isDotsType(al.Type().Underlying().(*types.Pointer).Elem()) {
					creates = true
				}
			}
		}
		if !creates {
			continue
		}
		allowed[f] = "creates the implicit elision"
		for _, c := range r.P.CallersOf(f) {
			for _, g := range helperGroup(c.Parent(), 2) {
				if _, ok := allowed[g]; !ok {
					allowed[g] = "implicit elision of a statement list"
				}
			}
		}
	}
	n := 0
	for _, f := range fns {
		seenHere := false
		for _, b := range f.Blocks {
			for _, in := range b.Instrs {
				ta, ok := in.(*ssa.TypeAssert)
				if !ok || !isDotsType(ta.AssertedType) {
					continue
				}
				n++
				root := f
				for root.Parent() != nil && allowed[root] == "" {
					root = root.Parent()
				}
				if why := allowed[root]; why != "" {
					if !seenHere {
						seenHere = true
						r.Pass(short(f)+"|interprets-dots", ta.Pos(), "%s recognises a \"...\" node: %s", short(f), why)
					}
					continue
				}
				r.Fail(short(f)+"|interprets-dots", ta.Pos(), "%s recognises a \"...\" node, but it is neither an elision test handed to compileSliceDots, nor part of compileForStmt, nor of the implicit statement-list elision: a further construct gives \"...\" a meaning that none of the elision rules decides (is the skipped run recorded and reproduced unchanged, on every '+' shape?)", short(f))
			}
		}
	}
	r.Count("places that recognise an elision node", n)
	r.Min("places that recognise an elision node", 3)
}

// noRecursionInTheFrontEnd (C08-R15): recursion in gopatch is structural
// descent over a finite syntax tree or a finite chain (the compilers and
// matchers of package engine, the parsers, the differs, the data chain). The
// front end — package main, the library API, the section splitter and the
// small helper packages — has none: file discovery walks the file system with
// filepath.Walk, which does not follow links, and everything else is loops
// (decided by R1). A cycle in the call graph of those packages (static calls,
// function literals, functions passed as values) is recursion whose depth is
// bounded by the input's *content* — a directory that is reachable from itself
// through two links — not by a tree: it is reported.
func noRecursionInTheFrontEnd(r *an.Run, rule string) {
	r.Rule(rule)
	front := func(f *ssa.Function) bool {
		rel := strings.TrimPrefix(strings.TrimPrefix(an.FuncPkgPath(f), an.Module), "/")
		switch rel {
		case "", "patch", "internal/parse/section", "internal/text":
			return true
		}
		return !architecturePackages[rel]
	}
	succs := map[*ssa.Function][]*ssa.Function{}
	var nodes []*ssa.Function
	for _, f := range r.P.ModuleFuncs() {
		if !front(f) || f.Blocks == nil {
			continue
		}
		nodes = append(nodes, f)
		seen := map[*ssa.Function]bool{}
		for _, b := range f.Blocks {
			for _, in := range b.Instrs {
				for _, op := range in.Operands(nil) {
					var g *ssa.Function
					switch v := (*op).(type) {
					case *ssa.Function:
						g = v
					case *ssa.MakeClosure:
						g, _ = v.Fn.(*ssa.Function)
					}
					if g != nil && an.InModule(g) && front(g) && !seen[g] {
						seen[g] = true
						succs[f] = append(succs[f], g)
					}
				}
			}
		}
	}
	// Tarjan
	index, low := map[*ssa.Function]int{}, map[*ssa.Function]int{}
	onStack := map[*ssa.Function]bool{}
	var stack []*ssa.Function
	next := 0
	var sccs [][]*ssa.Function
	var strong func(v *ssa.Function)
	strong = func(v *ssa.Function) {
		next++
		index[v], low[v] = next, next
		stack = append(stack, v)
		onStack[v] = true
		for _, w := range succs[v] {
			if index[w] == 0 {
				strong(w)
				if low[w] < low[v] {
					low[v] = low[w]
				}
			} else if onStack[w] && index[w] < low[v] {
				low[v] = index[w]
			}
		}
		if low[v] == index[v] {
			var comp []*ssa.Function
			for {
				w := stack[len(stack)-1]
				stack = stack[:len(stack)-1]
				onStack[w] = false
				comp = append(comp, w)
				if w == v {
					break
				}
			}
			sccs = append(sccs, comp)
		}
	}
	for _, f := range nodes {
		if index[f] == 0 {
			strong(f)
		}
	}
	bad := 0
	for _, comp := range sccs {
		self := false
		if len(comp) == 1 {
			for _, w := range succs[comp[0]] {
				if w == comp[0] {
					self = true
				}
			}
			if !self {
				continue
			}
		}
		bad++
		var names []string
		for _, f := range comp {
			names = append(names, short(f))
		}
		sort.Strings(names)
		r.Fail("recursion|"+names[0], comp[len(comp)-1].Pos(), "recursion in the front end: %s call each other (directly, or through a function value handed to a library walker); its depth is bounded by what the arguments contain, not by a finite tree — directories that link to each other make it run until the stack or the memory is exhausted", strings.Join(names, ", "))
	}
	r.Count("front-end functions in the recursion check", len(nodes))
	r.Min("front-end functions in the recursion check", 30)
	if bad == 0 {
		r.Pass("no-recursion-in-the-front-end", 0, "%d functions of package main, the library API, the section splitter and internal/text: their call graph (static calls, function literals, function values) has no cycle", len(nodes))
	}
}

// bothSidesSeeTheSameDeclarations: compileChange hands the two compilers of a
// change the same declaration table — the very value compileMeta returned for
// the change's @@ section. With a table of its own (filtered, extended,
// defaulted) one side would read a name as a metavariable that the other side
// reads as code: an unbound metavariable would be emitted under the spelling
// it happens to have in the patch.
func bothSidesSeeTheSameDeclarations(r *an.Run, rule string) {
	r.Rule(rule)
	f := fn(r, engine, "compiler.compileChange")
	if f == nil {
		return
	}
	var metas []ssa.Value
	var sites []ssa.CallInstruction
	for _, c := range an.Calls(f) {
		sc := an.StaticCallee(c)
		if sc == nil || !an.InModule(sc) || sc.Signature.Results().Len() != 1 {
			continue
		}
		rt := an.ShortType(sc.Signature.Results().At(0).Type())
		if !strings.HasSuffix(rt, "engine.matcherCompiler") && !strings.HasSuffix(rt, "engine.replacerCompiler") {
			continue
		}
		for _, a := range c.Common().Args {
			if strings.HasSuffix(an.ShortType(a.Type()), "engine.Meta") {
				metas = append(metas, a)
				sites = append(sites, c)
			}
		}
	}
	if !r.Check(len(metas) == 2, short(f)+"|two-compilers", f.Pos(), "compileChange creates a matcher compiler and a replacer compiler, each with a declaration table (found %d)", len(metas)) {
		return
	}
	fromCompileMeta := false
	if c, ok := metas[0].(*ssa.Call); ok {
		if sc := an.StaticCallee(c); sc != nil && strings.HasSuffix(short(sc), "compileMeta") {
			fromCompileMeta = true
		}
	}
	r.Check(metas[0] == metas[1], short(f)+"|same-table", sites[1].Pos(), "both compilers of a change are given the same declaration table (the matcher compiler gets %s, the replacer compiler %s)", an.Describe(metas[0]), an.Describe(metas[1]))
	r.Check(fromCompileMeta, short(f)+"|table-is-the-changes-own", sites[0].Pos(), "that table is what compileMeta made of the change's own @@ section")
}

// snapshotKnowsTheComments (C17-R10): the regions astdiff reports for a
// rewritten element stop at the comments of its neighbours only because the
// snapshot was taken with the file's comment map. So in both pipelines the map
// handed to astdiff.Before is, on every path, the result of ast.NewCommentMap
// for that very file and its own comment list — never nil, never a map kept
// from elsewhere (a size cap that skips the map widens every region to the
// neighbours themselves: their trailing and doc comments are deleted).
func snapshotKnowsTheComments(r *an.Run, rule string) {
	r.Rule(rule)
	n := 0
	for _, name := range [][2]string{{mainP, "patchRunner.Apply"}, {patchP, "File.Apply"}} {
		f := fn(r, name[0], name[1])
		if f == nil {
			continue
		}
		var before ssa.CallInstruction
		for _, g := range helperGroup(f, 2) {
			for _, c := range an.Calls(g) {
				if sc := an.StaticCallee(c); sc != nil && short(sc) == "internal/astdiff.Before" {
					before = c
				}
			}
		}
		if !r.Check(before != nil, short(f)+"|snapshot", f.Pos(), "%s takes an astdiff snapshot of the file before the first change", short(f)) {
			continue
		}
		n++
		file, cmap := before.Common().Args[0], before.Common().Args[1]
		if mi, ok := file.(*ssa.MakeInterface); ok {
			file = mi.X
		}
		good := true
		why := ""
		for _, leaf := range phiLeaves(cmap) {
			c, ok := leaf.(*ssa.Call)
			if !ok || !an.IsCallTo(c, "go/ast.NewCommentMap") {
				good, why = false, "got "+an.Describe(leaf)
				continue
			}
			// NewCommentMap(fset, node, comments): node is the file, comments its own list
			if c.Call.Args[1] != ssa.Value(mustMakeInterfaceOf(c.Call.Args[1], file)) {
				good, why = false, "the map is built for another node"
			}
			own := false
			if ld, ok := c.Call.Args[2].(*ssa.UnOp); ok && ld.Op == token.MUL {
				if fa, ok := ld.X.(*ssa.FieldAddr); ok && fa.X == file && fieldNameOf(fa) == "Comments" {
					own = true
				}
			}
			if !own {
				good, why = false, "the map is built from "+an.Describe(c.Call.Args[2])
			}
		}
		r.Check(good, short(f)+"|snapshot-has-the-comment-map", before.Pos(), "the snapshot is taken with ast.NewCommentMap(fset, file, file.Comments) of the file being patched, on every path %s", why)
	}
	r.Count("snapshots with a comment map", n)
	r.Min("snapshots with a comment map", 2)
}

// mustMakeInterfaceOf returns v when v is file converted to an interface (or file itself), nil otherwise.
func mustMakeInterfaceOf(v, file ssa.Value) ssa.Value {
	if v == file {
		return v
	}
	if mi, ok := v.(*ssa.MakeInterface); ok && mi.X == file {
		return v
	}
	return nil
}

// loneElisionRejected (C08-R16, after F17): the pattern parser turns a "..."
// into a pgo.Dots node that stands for a run of list elements. In a slot that
// is not a list element — the init of an `if`, the statement after a label, an
// operand — such a node can never match on the '-' side, and on the '+' side it
// is copied into the rewritten file, where go/printer panics on it
// ("unreachable"). So in augmenter.Apply every arm that puts the Dots node
// into a statement or expression slot does so only behind cursor.Index() >= 0
// (the slot is an element of a list) — or, for an expression, for the
// condition of a `for` header, which ForDots handles.
func loneElisionRejected(r *an.Run, rule string) {
	r.Rule(rule)
	anchor := fn(r, "internal/pgo", "augmenter.Apply")
	if anchor == nil {
		return
	}
	gt := goastTypes(r)
	n := 0
	for _, f := range helperGroup(anchor, 2) {
		n += loneElisionRejectedIn(r, f, gt)
	}
	r.Count("places where a \"...\" is put into the pattern tree", n)
	r.Min("places where a \"...\" is put into the pattern tree", 3)
}

func loneElisionRejectedIn(r *an.Run, f *ssa.Function, gt map[string]string) int {
	isDotsAlloc := func(v ssa.Value) bool {
		al, ok := v.(*ssa.Alloc)
		if !ok {
			return false
		}
		return an.IsNamed(al.Type().Underlying().(*types.Pointer).Elem(), an.Module+"/internal/pgo", "Dots")
	}
	// edges on which the slot is known to be a list element, and on which the parent is a for statement
	var listEdges, forEdges, initNil, postNil []an.CtrlEdge
	for _, b := range f.Blocks {
		iff, ok := b.Instrs[len(b.Instrs)-1].(*ssa.If)
		if !ok {
			continue
		}
		cond, pos := an.StripNot(iff.Cond)
		if cmp, ok := cond.(*ssa.BinOp); ok {
			c, isCall := cmp.X.(*ssa.Call)
			k, isc := an.ConstInt(cmp.Y)
			if isCall && an.IsCallTo(c, cursorIndex) && isc {
				succ := -1
				switch {
				case cmp.Op == token.LSS && k == 0, cmp.Op == token.LEQ && k == -1, cmp.Op == token.EQL && k == -1:
					succ = 1
				case cmp.Op == token.GEQ && k == 0, cmp.Op == token.GTR && k == -1, cmp.Op == token.NEQ && k == -1:
					succ = 0
				}
				if succ >= 0 {
					if !pos {
						succ = 1 - succ
					}
					listEdges = append(listEdges, an.CtrlEdge{Block: b, Succ: succ})
				}
			}
		}
		// forStmt.Init == nil / forStmt.Post == nil
		if cmp, ok := cond.(*ssa.BinOp); ok && (cmp.Op == token.EQL || cmp.Op == token.NEQ) && an.IsNilConst(cmp.Y) {
			if ld, ok := cmp.X.(*ssa.UnOp); ok {
				if fa, ok := ld.X.(*ssa.FieldAddr); ok && strings.HasSuffix(an.ShortType(fa.X.Type()), "ast.ForStmt") {
					succ := 0
					if cmp.Op == token.NEQ {
						succ = 1
					}
					if !pos {
						succ = 1 - succ
					}
					switch fieldNameOf(fa) {
					case "Init":
						initNil = append(initNil, an.CtrlEdge{Block: b, Succ: succ})
					case "Post":
						postNil = append(postNil, an.CtrlEdge{Block: b, Succ: succ})
					}
				}
			}
		}
		if ex, ok := cond.(*ssa.Extract); ok && ex.Index == 1 {
			if ta, ok := ex.Tuple.(*ssa.TypeAssert); ok && an.ShortType(ta.AssertedType) == "*ast.ForStmt" {
				if pc, ok := ta.X.(*ssa.Call); ok && an.IsCallTo(pc, cursorParent) {
					succ := 0
					if !pos {
						succ = 1
					}
					forEdges = append(forEdges, an.CtrlEdge{Block: b, Succ: succ})
				}
			}
		}
	}
	n := 0
	for _, c := range an.CallsTo(f, "(*golang.org/x/tools/go/ast/astutil.Cursor).Replace") {
		arg := c.Common().Args[1]
		holdsDots := false
		for v := range an.BackSlice(arg, an.SliceOpts{ThroughMemory: true}) {
			if isDotsAlloc(v) {
				holdsDots = true
			}
		}
		if !holdsDots {
			continue
		}
		// which slot type? the arm of `switch fieldType` this replacement sits in
		slot := ""
		for _, cs := range an.EqCases(f, func(v ssa.Value) bool { return an.ShortType(v.Type()) == "reflect.Type" }) {
			g := an.GlobalLoaded(cs.Key)
			if g == nil {
				continue
			}
			if unreachableWithout(c.Block(), []an.CtrlEdge{edgeTo(cs.If.Block(), cs.Target)}) {
				slot = gt[g.Name()]
			}
		}
		n++
		key := short(f) + "|lone-elision|" + slot
		switch slot {
		case "go/ast.Stmt":
			r.Check(len(listEdges) > 0 && unreachableWithout(c.Block(), listEdges), key, c.Pos(), "a \"...\" becomes a statement only where the slot is an element of a statement list (cursor.Index() >= 0): as the lone statement of a slot it would reach go/printer, which panics on it")
		case "go/ast.Expr":
			// not a list element: only as the condition of a pure `for ... {` header — the parent is a for
			// statement AND it has neither an init nor a post statement (ForDots handles exactly that form; in a
			// three-clause header the node would be copied into the output)
			good := len(listEdges) > 0
			// decided under hypotheses (the conjunction may be held in a variable): the slot is not a list element
			// (cursor.Index() < 0) and one of "parent is a for statement", "it has no init", "it has no post" is
			// false — the replacement must then be unreachable
			var isForV, initNilV, postNilV []ssa.Value
			var idxCmp []*ssa.BinOp
			for _, b := range f.Blocks {
				for _, in := range b.Instrs {
					switch x := in.(type) {
					case *ssa.Extract:
						if ta, ok := x.Tuple.(*ssa.TypeAssert); ok && x.Index == 1 && an.ShortType(ta.AssertedType) == "*ast.ForStmt" {
							isForV = append(isForV, x)
						}
					case *ssa.BinOp:
						if cc, ok := x.X.(*ssa.Call); ok && an.IsCallTo(cc, cursorIndex) {
							idxCmp = append(idxCmp, x)
						}
						if (x.Op == token.EQL || x.Op == token.NEQ) && an.IsNilConst(x.Y) {
							if ld, ok := x.X.(*ssa.UnOp); ok {
								if fa, ok := ld.X.(*ssa.FieldAddr); ok && strings.HasSuffix(an.ShortType(fa.X.Type()), "ast.ForStmt") {
									switch fieldNameOf(fa) {
									case "Init":
										initNilV = append(initNilV, x)
									case "Post":
										postNilV = append(postNilV, x)
									}
								}
							}
						}
					}
				}
			}
			if len(isForV) == 0 || len(initNilV) == 0 || len(postNilV) == 0 || len(idxCmp) == 0 {
				good = false
			}
			for _, falsified := range [][]ssa.Value{isForV, initNilV, postNilV} {
				fs := map[ssa.Value]bool{}
				for _, v := range falsified {
					fs[v] = true
				}
				assume := func(v ssa.Value) (bool, bool) {
					if cmp, ok := v.(*ssa.BinOp); ok {
						for _, ic := range idxCmp {
							if cmp == ic {
								k, isc := an.ConstInt(cmp.Y)
								if !isc {
									return false, false
								}
								// Index() is negative: evaluate the comparison
								switch {
								case cmp.Op == token.LSS && k == 0, cmp.Op == token.LEQ && k == -1:
									return true, true
								case cmp.Op == token.GEQ && k == 0, cmp.Op == token.GTR && k == -1:
									return false, true
								}
								return false, false
							}
						}
						if fs[v] {
							// "field == nil" is false, "field != nil" is true
							return cmp.Op == token.NEQ, true
						}
					}
					if fs[v] {
						return false, true
					}
					return false, false
				}
				if an.ReachUnder(f.Blocks[0], assume, nil)[c.Block()] {
					good = false
				}
			}
			r.Check(good, key, c.Pos(), "a \"...\" becomes an expression only as an element of a list or as the condition of a for header that has no init and no post statement")
		case "*go/ast.Field":
			r.Pass(key, c.Pos(), "a field is always an element of a field list")
		default:
			r.Undecided(key, c.Pos(), "cannot tell for which kind of slot this replacement of a \"...\" is made")
		}
	}
	return n
}

// metavariableBindsCode (C02-R10, after F18): a metavariable stands for code.
// An optional identifier that is absent — the label of a bare `break` — is a
// nil *ast.Ident of the right type: MetavarMatcher.Match must reject it before
// it captures or compares. Decided under the hypothesis "the candidate is a nil
// pointer" (got.Kind() == reflect.Ptr and got.IsNil() both true): the capture
// is unreachable, a captured matcher is not consulted, and every return that is
// reachable answers false.
func metavariableBindsCode(r *an.Run, rule string) {
	r.Rule(rule)
	f := fn(r, engine, "MetavarMatcher.Match")
	if f == nil {
		return
	}
	got := paramAt(f, 0)
	var isNil *ssa.Call
	for _, c := range an.CallsTo(f, rvIsNil) {
		if call, ok := c.(*ssa.Call); ok && isParam(call.Call.Args[0], an.ParamName(got)) {
			isNil = call
		}
	}
	if !r.Check(isNil != nil, short(f)+"|tests-for-absence", f.Pos(), "MetavarMatcher.Match asks whether the candidate is a nil pointer (an optional identifier that is absent)") {
		return
	}
	ptrKind := reflectKind(r, "Ptr")
	assume := func(v ssa.Value) (bool, bool) {
		if v == ssa.Value(isNil) {
			return true, true
		}
		if cmp, ok := v.(*ssa.BinOp); ok && (cmp.Op == token.EQL || cmp.Op == token.NEQ) {
			if c, ok := cmp.X.(*ssa.Call); ok && an.IsCallTo(c, rvKind) && isParam(c.Call.Args[0], an.ParamName(got)) {
				if k, isc := an.ConstInt(cmp.Y); isc {
					return (k == ptrKind) == (cmp.Op == token.EQL), true
				}
			}
		}
		return false, false
	}
	reach := an.ReachUnder(f.Blocks[0], assume, nil)
	captures, consults := false, false
	for b := range reach {
		for _, in := range b.Instrs {
			c, ok := in.(*ssa.Call)
			if !ok {
				continue
			}
			if an.IsCallTo(c, dataPath+".WithValue") {
				captures = true
			}
			if an.IsCallTo(c, matcherMatch) {
				consults = true
			}
		}
	}
	r.Check(!captures, short(f)+"|absent-identifier-not-captured", isNil.Pos(), "a nil candidate is never captured as the value of a metavariable")
	r.Check(!consults, short(f)+"|absent-identifier-not-compared", isNil.Pos(), "a nil candidate is never accepted as a repetition of a captured value")
	idx, _ := an.VerdictIndex(f.Signature)
	good := true
	for _, ret := range an.Returns(f) {
		if !reach[ret.Block()] {
			continue
		}
		if k, isc := an.ConstBool(ret.Results[idx]); !isc || k {
			good = false
		}
	}
	r.Check(good, short(f)+"|absent-identifier-rejected", isNil.Pos(), "for a nil candidate every reachable return answers false")
}

// chainStep: v is "the link below p" — the value of a field F of *p (an
// interface or pointer) type-asserted or loaded as a pointer to p's own struct
// type, taken directly or through a method of that type which returns it.
// It returns the struct type and the field index stepped through.
func chainStep(v ssa.Value, p ssa.Value) (st *types.Named, field int, ok bool) {
	pt, isPtr := p.Type().Underlying().(*types.Pointer)
	if !isPtr {
		return nil, 0, false
	}
	named, isNamed := pt.Elem().(*types.Named)
	if !isNamed {
		return nil, 0, false
	}
	if _, isStruct := named.Underlying().(*types.Struct); !isStruct {
		return nil, 0, false
	}
	// direct: typeassert / load of p.F
	var direct func(x ssa.Value, recv ssa.Value) (int, bool)
	direct = func(x ssa.Value, recv ssa.Value) (int, bool) {
		switch y := x.(type) {
		case *ssa.Extract:
			if ta, isTA := y.Tuple.(*ssa.TypeAssert); isTA && y.Index == 0 {
				return direct(ta, recv)
			}
		case *ssa.TypeAssert:
			if !types.Identical(y.AssertedType, recv.Type()) {
				return 0, false
			}
			return direct(y.X, recv)
		case *ssa.UnOp:
			if fa, isFA := y.X.(*ssa.FieldAddr); isFA && y.Op == token.MUL && fa.X == recv {
				return fa.Field, true
			}
		}
		return 0, false
	}
	if f, ok := direct(v, p); ok && types.Identical(v.Type(), p.Type()) {
		return named, f, true
	}
	// through a method: extract #i of m(p) where m returns, at i, the step of its receiver
	if ex, isEx := v.(*ssa.Extract); isEx {
		if c, isCall := ex.Tuple.(*ssa.Call); isCall {
			m := c.Call.StaticCallee()
			if m != nil && an.InModule(m) && m.Blocks != nil && len(c.Call.Args) > 0 && c.Call.Args[0] == p && len(m.Params) > 0 {
				all := len(an.Returns(m)) > 0
				fld := -1
				for _, ret := range an.Returns(m) {
					if ex.Index >= len(ret.Results) {
						all = false
						continue
					}
					f, ok := direct(ret.Results[ex.Index], m.Params[0])
					if !ok || !types.Identical(ret.Results[ex.Index].Type(), p.Type()) || fld >= 0 && fld != f {
						all = false
						continue
					}
					fld = f
				}
				if all && fld >= 0 {
					return named, fld, true
				}
			}
		}
	}
	return nil, 0, false
}

// chainWalker returns the header phi of l that walks down a chain — every
// value that comes round the loop is the link below the current one — and the
// field it follows; nil when l is not such a loop.
func chainWalker(l *an.Loop) (*ssa.Phi, *types.Named, int) {
	for _, in := range l.Header.Instrs {
		phi, ok := in.(*ssa.Phi)
		if !ok {
			continue
		}
		var st *types.Named
		fld, n := -1, 0
		good := true
		for i, e := range phi.Edges {
			if !l.Blocks[phi.Block().Preds[i]] {
				continue
			}
			n++
			s, f, isStep := chainStep(e, phi)
			if !isStep || fld >= 0 && f != fld {
				good = false
				break
			}
			st, fld = s, f
		}
		if good && n > 0 {
			return phi, st, fld
		}
	}
	return nil, nil, 0
}

// linkFieldIsSetOnceAtCreation: field fld of struct type st is stored only into
// a value allocated in the storing function, and what is stored does not come
// from that value: every link points to something that existed before it, so
// a chain of links is finite.
func linkFieldIsSetOnceAtCreation(r *an.Run, st *types.Named, fld int) bool {
	for _, f := range r.P.ModuleFuncs() {
		for _, in := range an.StoresIn(f) {
			s, ok := in.(*ssa.Store)
			if !ok {
				continue
			}
			fa, ok := s.Addr.(*ssa.FieldAddr)
			if !ok || fa.Field != fld {
				continue
			}
			pt, isPtr := fa.X.Type().Underlying().(*types.Pointer)
			if !isPtr || !types.Identical(pt.Elem(), st) {
				continue
			}
			al, fresh := fa.X.(*ssa.Alloc)
			if !fresh {
				return false
			}
			for v := range an.BackSlice(s.Val, an.SliceOpts{ThroughMemory: true}) {
				if v == ssa.Value(al) {
					return false
				}
			}
		}
	}
	return true
}

// importsAddedWithoutMerging (C17-R11): the comments of an import declaration
// in which nothing was rewritten stay attached to it. astutil.AddNamedImport
// and AddImport end by merging ALL import declarations of the file into the
// first one (x/tools, go/ast/astutil/imports.go: "Merge all the import
// declarations into the first one"): the specs of a second `import ( … )`
// block are moved, the block disappears, its doc comment attaches to whatever
// follows and the end-of-line comments of its specs are dropped. So every call
// site of those two functions in code reachable from the two pipelines is a
// place where adding one import rearranges — and loses comments of — import
// declarations the patch never mentioned.
func importsAddedWithoutMerging(r *an.Run, rule string) {
	r.Rule(rule)
	roots := []*ssa.Function{r.P.Func(mainP, "patchRunner.Apply"), r.P.Func(patchP, "File.Apply")}
	for _, f := range roots {
		if f == nil {
			r.Undecided("anchor|apply-roots", 0, "an entry point of patch application was not found")
			return
		}
	}
	n := 0
	var fns []*ssa.Function
	for f := range r.P.ReachableModuleFuncs(roots...) {
		fns = append(fns, f)
	}
	sort.Slice(fns, func(i, j int) bool { return fns[i].String() < fns[j].String() })
	for _, f := range fns {
		for _, c := range an.Calls(f) {
			if !an.IsCallTo(c, addNamedImport, addImport) {
				continue
			}
			n++
			r.Fail(short(f)+"|merges-import-blocks|"+lastSegment(an.CalleeName(c)), c.Pos(), "%s adds the import with %s, which merges every import declaration of the file into the first one: a second import block the patch never touched disappears, its doc comment attaches to the next declaration and the end-of-line comments of its specs are lost", short(f), an.TrimModule(an.CalleeName(c)))
		}
	}
	r.Count("places where an import is added", n)
	r.Min("places where an import is added", 1)
}

// guessedPackageNameIsAnIdentifier (C11-R7, after F20): for an unnamed import
// gopatch has to guess under which name the file refers to the package — it
// decides with that name whether a matched import is still used (and deletes it
// if not) and whether an added import replaces it. The last element of the path
// taken raw is not such a name whenever it is not an identifier
// ("gopkg.in/yaml.v3" → "yaml.v3": never used, so a context import is deleted
// although yaml.Marshal is still there). So (a) where the import replacer and
// the clean-up derive a name from an import path they do it through a function
// of the module — never path.Base / filepath.Base directly — and (b) every
// value that function returns is cut where the element stops being an
// identifier (a slice whose upper bound is the result of strings.IndexFunc /
// IndexAny on the sliced string, or the string itself when that search found
// nothing).
func guessedPackageNameIsAnIdentifier(r *an.Run, rule string) {
	r.Rule(rule)
	anchors := []*ssa.Function{fn(r, engine, "ImportReplacer.Replace"), fn(r, engine, "ImportsReplacer.Cleanup")}
	guessers := map[*ssa.Function]bool{}
	n := 0
	isBase := func(c ssa.CallInstruction) bool { return an.IsCallTo(c, "path.Base", "path/filepath.Base") }
	reachesBase := func(g *ssa.Function) bool {
		for _, h := range helperGroup(g, 2) {
			for _, c := range an.Calls(h) {
				if isBase(c) {
					return true
				}
			}
		}
		return false
	}
	for _, f := range anchors {
		if f == nil {
			continue
		}
		for _, g := range helperGroup(f, 2) {
			for _, c := range an.Calls(g) {
				if isBase(c) && !guessers[g] {
					// is g itself a guesser (string -> string)? then judged below; otherwise the raw element is used here
					if g.Signature.Params().Len() == 1 && g.Signature.Results().Len() == 1 && an.ShortType(g.Signature.Results().At(0).Type()) == "string" && g != f {
						guessers[g] = true
						continue
					}
					n++
					r.Fail(short(g)+"|raw-last-element", c.Pos(), "%s takes the last element of an import path as the name the file uses for the package: for paths whose last element is not an identifier (gopkg.in/yaml.v3, example.com/foo/v2) that name is never used in the file, and an import that is still needed is deleted", short(g))
				}
				if sc := an.StaticCallee(c); sc != nil && an.InModule(sc) && sc.Blocks != nil && sc.Signature.Params().Len() == 1 && sc.Signature.Results().Len() == 1 &&
					an.ShortType(sc.Signature.Results().At(0).Type()) == "string" && an.ShortType(sc.Signature.Params().At(0).Type()) == "string" && reachesBase(sc) {
					guessers[sc] = true
				}
			}
		}
	}
	for g := range guessers {
		n++
		good := len(an.Returns(g)) > 0
		for _, ret := range an.Returns(g) {
			for _, leaf := range phiLeaves(ret.Results[0]) {
				cut := false
				if sl, ok := leaf.(*ssa.Slice); ok && sl.High != nil {
					if c, ok := sl.High.(*ssa.Call); ok && an.IsCallTo(c, "strings.IndexFunc", "strings.IndexAny", "strings.IndexByte", "strings.IndexRune") && len(c.Call.Args) > 0 && c.Call.Args[0] == sl.X {
						cut = true
					}
				}
				if !cut {
					// the uncut string: only behind "the search found nothing"
					for _, b := range g.Blocks {
						iff, ok := b.Instrs[len(b.Instrs)-1].(*ssa.If)
						if !ok {
							continue
						}
						cmp, ok := iff.Cond.(*ssa.BinOp)
						if !ok {
							continue
						}
						c, ok := cmp.X.(*ssa.Call)
						if !ok || !an.IsCallTo(c, "strings.IndexFunc", "strings.IndexAny", "strings.IndexByte", "strings.IndexRune") || len(c.Call.Args) == 0 || c.Call.Args[0] != leaf {
							continue
						}
						if k, isc := an.ConstInt(cmp.Y); isc && (cmp.Op == token.GEQ && k == 0 || cmp.Op == token.LSS && k == 0 || cmp.Op == token.NEQ && k == -1 || cmp.Op == token.EQL && k == -1 || cmp.Op == token.GTR && k == -1) {
							cut = true
						}
					}
				}
				if !cut {
					good = false
				}
			}
		}
		// an element is a major-version element ("v2") only if digits follow the v: the bare element "v" is a
		// package name. Where the guess steps over an element (path.Dir), the test that lets it do so measures
		// the element (a comparison of its length with 1 or 2) or parses the digits (strconv: the empty string
		// is an error) — a loop over the characters after the v is vacuously true when there are none
		skips, measures := false, false
		for _, h := range helperGroup(g, 2) {
			for _, c := range an.Calls(h) {
				if an.IsCallTo(c, "path.Dir", "path/filepath.Dir") {
					skips = true
				}
				if an.IsCallTo(c, "strconv.Atoi", "strconv.ParseInt", "strconv.ParseUint", "regexp.MatchString", "(*regexp.Regexp).MatchString") {
					measures = true
				}
			}
			for _, b := range h.Blocks {
				for _, in := range b.Instrs {
					cmp, ok := in.(*ssa.BinOp)
					if !ok {
						continue
					}
					for _, pair := range [][2]ssa.Value{{cmp.X, cmp.Y}, {cmp.Y, cmp.X}} {
						lc, isLen := pair[0].(*ssa.Call)
						k, isc := an.ConstInt(pair[1])
						if isLen && an.IsCallTo(lc, "builtin:len") && isc && (k == 1 || k == 2) {
							if bt, ok := lc.Call.Args[0].Type().Underlying().(*types.Basic); ok && bt.Info()&types.IsString != 0 {
								measures = true
							}
						}
					}
				}
			}
		}
		if skips {
			r.Check(measures, short(g)+"|version-element-has-digits", g.Pos(), "%s steps over a major-version element only when digits follow the v (it measures the element or parses the digits): the bare element \"v\" (example.com/geom/v) is the package name, and guessing \"geom\" deletes an import of v that is still used", short(g))
		}
		r.Check(good, short(g)+"|cut-at-non-identifier", g.Pos(), "%s cuts the path element where it stops being an identifier (\"yaml.v3\" → \"yaml\"): what it returns can be the name the file uses", short(g))
	}
	r.Count("places where a package name is guessed from an import path", n)
	r.Min("places where a package name is guessed from an import path", 1)
}

// snapshotAdvances (C12-R4 / C17): Snapshot.Diff returns the snapshot of the
// rewritten tree; the next change is compared against THAT. In both pipelines
// the result of every Diff call is what the snapshot variable holds when Diff
// is called again (the call's result flows back into its own receiver through
// the change loop) — a result that is dropped leaves the baseline at the
// original file, and from the second matching change on the changed regions
// (comments removed, lines merged) are computed against the wrong tree.
func snapshotAdvances(r *an.Run, rule string) {
	r.Rule(rule)
	n := 0
	for _, name := range [][2]string{{mainP, "patchRunner.Apply"}, {patchP, "File.Apply"}} {
		f := fn(r, name[0], name[1])
		if f == nil {
			continue
		}
		for _, g := range helperGroup(f, 2) {
			for _, c := range an.Calls(g) {
				call, ok := c.(*ssa.Call)
				sc := an.StaticCallee(c)
				if !ok || sc == nil || !strings.HasSuffix(short(sc), "astdiff.Snapshot).Diff") && !strings.HasSuffix(short(sc), "Snapshot.Diff") {
					continue
				}
				n++
				recv := call.Call.Args[0]
				feeds := false
				for v := range an.BackSlice(recv, an.SliceOpts{ThroughMemory: true}) {
					if v == ssa.Value(call) {
						feeds = true
					}
				}
				r.Check(feeds, short(g)+"|snapshot-advances", call.Pos(), "the snapshot %s returns is the one the next change is compared against (the result flows back into the snapshot variable)", short(sc))
			}
		}
	}
	r.Count("snapshot updates", n)
	r.Min("snapshot updates", 2)
}
