package rules

import (
	"go/token"
	"go/types"
	"strings"

	"golang.org/x/tools/go/ssa"

	"gpcheck/internal/an"
)

// Rules added after the eleventh seeding round (boundary cases: the empty
// list, the last element, the line without a newline, the element that is
// only its own prefix, a helper shared with a second caller).

// unterminatedLastLineIsALine (C03/C13/C01): the last line of a patch file
// need not end in a newline. Where the section splitter looks for the end of
// the line with bytes.IndexByte (or one of its relatives) in
// content[offset:], the "not found" answer means "the line runs to the end of
// the content": on that edge the offset is set to len(content) before the
// function returns or searches again. A search whose not-found edge just
// leaves the loop, or does nothing, drops the last line ('+baz(x)<EOF>' never
// reaches the '+' pattern) or turns it into empty lines. The byte loop of the
// unchanged tree ends at len(content) by construction (C08-R1 decides it).
func unterminatedLastLineIsALine(r *an.Run, rule string) {
	r.Rule(rule)
	anchor := fn(r, sectRel, "programSplitter.next")
	if anchor == nil {
		return
	}
	recvT := anchor.Signature.Recv().Type()
	isOffLoad := func(v ssa.Value) bool {
		u, ok := v.(*ssa.UnOp)
		return ok && u.Op == token.MUL && strings.HasSuffix(an.Path(u.X), ".offset")
	}
	n := 0
	for _, f := range moduleFuncsSorted(r) {
		if f.Signature.Recv() == nil || !types.Identical(f.Signature.Recv().Type(), recvT) {
			continue
		}
		for _, c := range an.Calls(f) {
			call, ok := c.(*ssa.Call)
			if !ok || !an.IsCallTo(c, "bytes.IndexByte", "bytes.Index", "bytes.IndexRune", "bytes.IndexAny") {
				continue
			}
			sl, ok := call.Call.Args[0].(*ssa.Slice)
			if !ok || !isOffLoad(sl.Low) || sl.High != nil {
				continue
			}
			n++
			// the not-found edges
			var notFound []*ssa.BasicBlock
			for _, b := range f.Blocks {
				iff, ok := b.Instrs[len(b.Instrs)-1].(*ssa.If)
				if !ok {
					continue
				}
				cond, pos := an.StripNot(iff.Cond)
				cmp, ok := cond.(*ssa.BinOp)
				if !ok || cmp.X != ssa.Value(call) {
					continue
				}
				k, isc := an.ConstInt(cmp.Y)
				if !isc {
					continue
				}
				onTrue, known := false, false
				switch {
				case cmp.Op == token.LSS && k == 0, cmp.Op == token.LEQ && k == -1, cmp.Op == token.EQL && k == -1:
					onTrue, known = true, true
				case cmp.Op == token.GEQ && k == 0, cmp.Op == token.GTR && k == -1, cmp.Op == token.NEQ && k == -1:
					onTrue, known = false, true
				}
				if !known {
					continue
				}
				if !pos {
					onTrue = !onTrue
				}
				if onTrue {
					notFound = append(notFound, b.Succs[0])
				} else {
					notFound = append(notFound, b.Succs[1])
				}
			}
			key := short(f) + "|line-end-search"
			if len(notFound) == 0 {
				r.Fail(key, c.Pos(), "%s searches for the end of the line with %s and never asks whether it was found: a last line without a newline is not handled", short(f), lastSegment(an.CalleeName(c)))
				continue
			}
			setsEnd := map[*ssa.BasicBlock]bool{}
			for _, in := range an.StoresIn(f) {
				st, ok := in.(*ssa.Store)
				if !ok || !strings.HasSuffix(an.Path(st.Addr), ".offset") {
					continue
				}
				if lc, ok := st.Val.(*ssa.Call); ok && an.IsCallTo(lc, "builtin:len") && strings.HasSuffix(an.Path(lc.Call.Args[0]), ".content") {
					setsEnd[st.Block()] = true
				}
			}
			var starts []*ssa.BasicBlock
			for _, b := range notFound {
				if !setsEnd[b] {
					starts = append(starts, b)
				}
			}
			reach := an.Reach(starts, func(from *ssa.BasicBlock, succ int) bool { return setsEnd[from.Succs[succ]] })
			var bad ssa.Instruction
			for b := range reach {
				if setsEnd[b] {
					continue
				}
				if ret := an.ReturnOf(b); ret != nil {
					bad = ret
				}
				if b == call.Block() {
					bad = call
				}
			}
			pos := c.Pos()
			if bad != nil {
				pos = bad.Pos()
			}
			r.Check(bad == nil, key, pos, "when %s finds no newline in content[offset:], %s sets the offset to len(content) — the line runs to the end of the content — before it returns or searches again: a patch file whose last line has no trailing newline keeps that line", lastSegment(an.CalleeName(c)), short(f))
		}
	}
	r.Count("line-end searches in the section splitter", n)
	if n == 0 {
		r.Pass("no-line-end-search-by-index", anchor.Pos(), "the section splitter finds the end of a line with a byte loop that ends at len(content) (decided by the scan-loop rule of C08)")
	}
}

// positionsOfTwoFilesByLineAndColumn (C04): the first "..." of a statement
// patch lives in the parsed .minus/.plus file, the start of the patch in the
// patch file; they denote the same place when line and column agree. Their
// offsets (and file names) never do: a comparison of the two token.Position
// values as wholes is always false, and the implicit leading "..." is then
// added next to the one the patch already has.
func positionsOfTwoFilesByLineAndColumn(r *an.Run, rule string) {
	r.Rule(rule)
	f := fn(r, engine, "startsWithDotsAt")
	if f == nil {
		return
	}
	lines, cols := 0, 0
	var whole ssa.Instruction
	for _, g := range helperGroup(f, 1) {
		for _, b := range g.Blocks {
			for _, in := range b.Instrs {
				cmp, ok := in.(*ssa.BinOp)
				if !ok || (cmp.Op != token.EQL && cmp.Op != token.NEQ) {
					continue
				}
				if an.ShortType(cmp.X.Type()) == "token.Position" {
					whole = cmp
				}
				fx, fy := loadedField(cmp.X), loadedField(cmp.Y)
				if fx == "Line" && fy == "Line" {
					lines++
				}
				if fx == "Column" && fy == "Column" {
					cols++
				}
			}
		}
	}
	pos := f.Pos()
	if whole != nil {
		pos = whole.Pos()
	}
	r.Check(whole == nil && lines >= 1 && cols >= 1, short(f)+"|line-and-column", pos, "%s compares the position of the first \"...\" with the start of the patch by line and by column (found %d line and %d column comparison(s)%s): the two positions belong to different files of the FileSet, so their offsets and file names never agree", short(f), lines, cols, ifNonEmpty(describeIf(whole != nil, "and a comparison of two whole token.Position values"), ", "))
}

func describeIf(c bool, s string) string {
	if c {
		return s
	}
	return ""
}

// trimmedSliceHasRoom (C08): x[c : len(x)-k] with c, k >= 1 takes something
// off both ends; it needs len(x) >= c+k. A test that only knows that x begins
// and ends with some character (HasPrefix && HasSuffix — true for the
// one-character string that is its own prefix and suffix) does not establish
// that: a dominating comparison of len(x) must.
func trimmedSliceHasRoom(r *an.Run, rule string) {
	r.Rule(rule)
	n := 0
	for _, f := range moduleFuncsSorted(r) {
		rel := strings.TrimPrefix(strings.TrimPrefix(an.FuncPkgPath(f), an.Module), "/")
		if strings.HasPrefix(rel, "tools") {
			continue
		}
		for _, b := range f.Blocks {
			for _, in := range b.Instrs {
				s, ok := in.(*ssa.Slice)
				if !ok || s.Low == nil || s.High == nil {
					continue
				}
				c, isc := an.ConstInt(s.Low)
				if !isc || c < 1 {
					continue
				}
				hi := an.Lin(s.High)
				lenKey := ""
				if p := an.Path(s.X); p != "" {
					lenKey = "len(" + p + ")"
				} else {
					lenKey = "len($" + s.X.Name() + ")"
				}
				if len(hi.Terms) != 1 || hi.Terms[lenKey] != 1 || hi.K > -1 {
					continue
				}
				need := c - hi.K // len(x) >= c + k
				n++
				ok2 := lenAtLeast(f, b, lenKey, need)
				r.Check(ok2, short(f)+"|"+lenKey+"|trimmed-at-both-ends", s.Pos(), "%s takes %d element(s) off the front and %d off the end of %s in one slice expression: a dominating comparison establishes %s >= %d (that the value begins and ends with some character does not — the one-character value is its own prefix and suffix, and the slice panics with low > high)", short(f), c, -hi.K, strings.TrimSuffix(strings.TrimPrefix(lenKey, "len("), ")"), lenKey, need)
			}
		}
	}
	r.Count("slices trimmed at both ends", n)
}

// reflectSliceWithinLength (C08): reflect.Value.Slice(i, j) panics when j is
// larger than the capacity of the candidate list — the candidate comes from
// the target file, the bound from the pattern. Every such call is dominated by
// a comparison of j with the Len() of the same value.
func reflectSliceWithinLength(r *an.Run, rule string) {
	r.Rule(rule)
	n := 0
	for _, f := range moduleFuncsSorted(r) {
		for _, c := range an.Calls(f) {
			if !an.IsCallTo(c, "(reflect.Value).Slice", "(reflect.Value).Slice3") {
				continue
			}
			n++
			args := c.Common().Args
			recv, hi := args[0], args[2]
			rp := an.Path(recv)
			guarded := false
			for _, gf := range guardFacts(f) {
				if !gf.At.Dominates(c.Block()) {
					continue
				}
				cmp := gf.Cmp
				isLen := func(v ssa.Value) bool {
					lc, ok := v.(*ssa.Call)
					return ok && an.IsCallTo(lc, "(reflect.Value).Len", "(reflect.Value).Cap") && rp != "" && an.Path(lc.Call.Args[0]) == rp
				}
				sameAsHi := func(v ssa.Value) bool { return an.Lin(v).Sub(an.Lin(hi)).IsZero() }
				switch {
				case sameAsHi(cmp.X) && isLen(cmp.Y):
					// hi op len
					if (cmp.Op == token.LEQ || cmp.Op == token.LSS) && gf.Holds || cmp.Op == token.GTR && !gf.Holds {
						guarded = true
					}
				case isLen(cmp.X) && sameAsHi(cmp.Y):
					// len op hi
					if (cmp.Op == token.GEQ || cmp.Op == token.GTR) && gf.Holds || cmp.Op == token.LSS && !gf.Holds {
						guarded = true
					}
				}
			}
			r.Check(guarded, short(f)+"|reflect-slice-bound", c.Pos(), "%s slices a reflected list of the target file up to a bound that comes from the pattern: a dominating comparison with the list's Len() keeps the bound inside it (a list shorter than the fixed items in front of the first \"...\" does not match; it must not panic)", short(f))
		}
	}
	r.Count("reflect.Value.Slice calls", n)
}

// nothingSkippedBeforeTheWalk (C15): whether a name is left out is decided
// inside the walk, for the directories the walk comes to. The root of a walk
// is what the user named: it is walked whatever it is called. Before the call
// of filepath.Walk, findGoFiles returns only with an error.
func nothingSkippedBeforeTheWalk(r *an.Run, rule string) {
	r.Rule(rule)
	f, _, walk := walkCallback(r)
	if f == nil || walk == nil {
		return
	}
	after := an.Reach([]*ssa.BasicBlock{walk.Block()}, nil)
	bad := 0
	n := 0
	for _, ret := range an.Returns(f) {
		if after[ret.Block()] {
			continue
		}
		n++
		last := returnedValue(ret, len(ret.Results)-1)
		if an.IsErrorType(last.Type()) && !an.IsNilConst(last) {
			continue
		}
		bad++
		r.Fail(short(f)+"|returns-before-the-walk", ret.Pos(), "%s returns without an error before it has walked the path it was given: an argument the user named is given up on account of its name (a file called _gen.go or .hidden.go, a directory called testdata) although \"a file named explicitly is processed wherever it lives\"", short(f))
	}
	if bad == 0 {
		r.Pass(short(f)+"|returns-before-the-walk", walk.Pos(), "before the walk %s returns only with an error (%d such return(s))", short(f), n)
	}
}

// splitterPositionsFollowTheOffsets (C19): the splitter reports a bad change
// name at startOffset + (bytes shaved off the text). That is the right place
// only while the text handed on is content[startOffset:offset] and the
// position is file.Pos(startOffset): every assignment of the splitter's text
// and pos fields has that form (or clears the field at the end of the input).
func splitterPositionsFollowTheOffsets(r *an.Run, rule string) {
	r.Rule(rule)
	anchor := fn(r, sectRel, "programSplitter.next")
	if anchor == nil {
		return
	}
	recvT := anchor.Signature.Recv().Type()
	isLoadOf := func(v ssa.Value, suffix string) bool {
		u, ok := v.(*ssa.UnOp)
		return ok && u.Op == token.MUL && strings.HasSuffix(an.Path(u.X), suffix)
	}
	n := 0
	for _, f := range moduleFuncsSorted(r) {
		if f.Signature.Recv() == nil || !types.Identical(f.Signature.Recv().Type(), recvT) {
			continue
		}
		// the start offset: a load of the field, or the value this function has put there (`lineStart := p.offset;
		// p.startOffset = lineStart`)
		isStart := func(v ssa.Value) bool {
			if isLoadOf(v, ".startOffset") {
				return true
			}
			for _, in := range an.StoresIn(f) {
				if st, ok := in.(*ssa.Store); ok && st.Val == v && strings.HasSuffix(an.Path(st.Addr), ".startOffset") {
					return true
				}
			}
			return false
		}
		for _, in := range an.StoresIn(f) {
			st, ok := in.(*ssa.Store)
			if !ok {
				continue
			}
			fa, ok := st.Addr.(*ssa.FieldAddr)
			if !ok || !types.Identical(fa.X.Type(), recvT) {
				continue
			}
			switch fieldNameOf(fa) {
			case "text":
				n++
				good := an.IsNilConst(st.Val)
				if sl, ok := st.Val.(*ssa.Slice); ok && isLoadOf(sl.X, ".content") && isStart(sl.Low) && (sl.High == nil || isLoadOf(sl.High, ".offset")) {
					good = true
				}
				r.Check(good, short(f)+"|text-is-the-line-from-startOffset", st.Pos(), "the text the splitter hands on is content[startOffset:offset] (or nil at the end): the column of a bad change name is computed as startOffset plus the bytes shaved off that text")
			case "pos":
				n++
				good := false
				if k, isc := st.Val.(*ssa.Const); isc && k.Value != nil && k.Int64() == 0 {
					good = true
				}
				if call, ok := st.Val.(*ssa.Call); ok && an.IsCallTo(call, "(*go/token.File).Pos") && len(call.Call.Args) == 2 && isStart(call.Call.Args[1]) {
					good = true
				}
				r.Check(good, short(f)+"|pos-is-the-position-of-startOffset", st.Pos(), "the position of the splitter's current line is file.Pos(startOffset) (or NoPos at the end): it does not move on its own while startOffset stays")
			}
		}
	}
	r.Count("assignments of the splitter's text and pos", n)
	r.Min("assignments of the splitter's text and pos", 3)
}

// guardFact: in block At (reached over a single edge) the comparison Cmp has
// the truth value Holds.
type guardFact struct {
	Cmp   *ssa.BinOp
	Holds bool
	At    *ssa.BasicBlock
}

// guardFacts lists what the branches of f establish: for a plain `if c` the
// comparison c on either side; for the condition of a switch case or an
// assignment written as a && b && c — which go/ssa evaluates into a phi of
// (false, …, false, c) and branches on that — every conjunct on the true side.
func guardFacts(f *ssa.Function) []guardFact {
	var out []guardFact
	add := func(v ssa.Value, holds bool, at *ssa.BasicBlock) {
		inner, pos := an.StripNot(v)
		if cmp, ok := inner.(*ssa.BinOp); ok && len(at.Preds) == 1 {
			out = append(out, guardFact{cmp, holds == pos, at})
		}
	}
	for _, b := range f.Blocks {
		iff, ok := b.Instrs[len(b.Instrs)-1].(*ssa.If)
		if !ok {
			continue
		}
		if phi, ok := iff.Cond.(*ssa.Phi); ok && phi.Block() == b {
			conj := true
			for _, e := range phi.Edges {
				if k, isc := an.ConstBool(e); isc && k {
					conj = false // a || b: the true side says nothing about the single operands
				}
			}
			if !conj {
				continue
			}
			for i, e := range phi.Edges {
				p := b.Preds[i]
				if k, isc := an.ConstBool(e); isc && !k {
					if pi, ok := p.Instrs[len(p.Instrs)-1].(*ssa.If); ok && len(p.Succs) == 2 {
						// the side of p's test that goes on to the next conjunct
						add(pi.Cond, p.Succs[1] == b, b.Succs[0])
					}
					continue
				}
				add(e, true, b.Succs[0])
			}
			continue
		}
		add(iff.Cond, true, b.Succs[0])
		add(iff.Cond, false, b.Succs[1])
	}
	return out
}

// lenAtLeast: some branch that dominates block at establishes that the length
// named lenKey (an.AtomKey of the len call) is at least need.
func lenAtLeast(f *ssa.Function, at *ssa.BasicBlock, lenKey string, need int64) bool {
	for _, gf := range guardFacts(f) {
		if !gf.At.Dominates(at) {
			continue
		}
		cmp := gf.Cmp
		l := an.Lin(cmp.X).Sub(an.Lin(cmp.Y)) // l op 0
		op := cmp.Op
		if l.Terms[lenKey] == -1 {
			l = an.Lin(cmp.Y).Sub(an.Lin(cmp.X))
			switch op {
			case token.LSS:
				op = token.GTR
			case token.LEQ:
				op = token.GEQ
			case token.GTR:
				op = token.LSS
			case token.GEQ:
				op = token.LEQ
			}
		}
		if len(l.Terms) != 1 || l.Terms[lenKey] != 1 {
			continue
		}
		// len + K op 0
		switch {
		case op == token.GEQ && gf.Holds && -l.K >= need, // len >= -K
			op == token.GTR && gf.Holds && -l.K+1 >= need,         // len > -K
			op == token.LSS && !gf.Holds && -l.K >= need,          // not (len < -K)
			op == token.LEQ && !gf.Holds && -l.K+1 >= need,        // not (len <= -K)
			op == token.NEQ && gf.Holds && l.K == 0 && need <= 1,  // len != 0
			op == token.EQL && !gf.Holds && l.K == 0 && need <= 1: // not (len == 0)
			return true
		}
	}
	return false
}

// commentGroupPositionsGuarded (C08, after F23): a comment group whose comments
// all lay inside a rewritten region is emptied in place (cleanupFilePos), and
// the snapshot the next change is compared against still refers to it. Pos()
// and End() of an empty group index List[0] / List[len-1]: every such call in
// the module is dominated by a test that the group's List is not empty.
func commentGroupPositionsGuarded(r *an.Run, rule string) {
	r.Rule(rule)
	n := 0
	for _, f := range moduleFuncsSorted(r) {
		rel := strings.TrimPrefix(strings.TrimPrefix(an.FuncPkgPath(f), an.Module), "/")
		if strings.HasPrefix(rel, "tools") {
			continue
		}
		for _, c := range an.Calls(f) {
			if !an.IsCallTo(c, "(*go/ast.CommentGroup).Pos", "(*go/ast.CommentGroup).End") {
				continue
			}
			n++
			recv := c.Common().Args[0]
			p := an.Path(recv)
			ok := p != "" && lenAtLeast(f, c.Block(), "len("+p+".List)", 1)
			r.Check(ok, short(f)+"|"+lastSegment(an.CalleeName(c))+"|group-not-empty", c.Pos(), "%s asks a comment group for its position behind a test that the group still has comments: a group emptied together with the code its comments were in (an earlier change of the same run) has none, and %s panics with index out of range", short(f), lastSegment(an.CalleeName(c)))
		}
	}
	r.Count("position queries on comment groups", n)
	r.Min("position queries on comment groups", 1)
}
