package an

import (
	"go/token"
	"go/types"

	"golang.org/x/tools/go/ssa"
)

// IndexLoop is a natural loop of the form `for i := 0; i < bound; i++` or
// `for i[, x] := range slice`, recognised on SSA.
type IndexLoop struct {
	Loop  *Loop
	Phi   *ssa.Phi
	Index ssa.Value // the value the body uses as the current index
	Start int64     // first value of Index (when constant)
	// StartVal is the loop-invariant first value of Index when it is not a
	// constant (e.g. `for p := idx; p < end; p++`); nil otherwise.
	StartVal ssa.Value
	Step     int64
	Bound    ssa.Value // right operand of the `<` test
	If       *ssa.If   // header test; Succs[0] is the body
	// Descending: `for i := n - 1; i >= 0; i--`. Step is -1, StartVal the first
	// index (n - 1), Bound the exclusive upper limit n when the first index has
	// that form (nil otherwise); the loop ends below index 0.
	Descending bool
	// Rotated: the form of `for i := range n` — the loop is entered only when 0 < n, the body comes first and
	// the test i+1 < n sits in the latch (If is that test; its block is the latch, not the header).
	Rotated bool
}

// Full reports whether the loop visits every index of [0, Bound) once:
// forward from 0 in steps of 1, or backward from Bound-1 down to 0.
func (il *IndexLoop) Full() bool {
	if il.Descending {
		return il.Bound != nil && il.Step == -1
	}
	return il.Start == 0 && il.Step == 1
}

// asRotatedLoop recognises the form go/ssa gives `for i := range n`: the test
// `0 < n` in front of the loop, the body first, and `i+1 < n` at the bottom.
func asRotatedLoop(l *Loop) *IndexLoop {
	h := l.Header
	if len(l.Latch) != 1 {
		return nil
	}
	lt := l.Latch[0]
	if len(lt.Instrs) == 0 {
		return nil
	}
	iff, ok := lt.Instrs[len(lt.Instrs)-1].(*ssa.If)
	if !ok || len(lt.Succs) != 2 || lt.Succs[0] != h || l.Blocks[lt.Succs[1]] {
		return nil
	}
	cmp, ok := iff.Cond.(*ssa.BinOp)
	if !ok || cmp.Op != token.LSS {
		return nil
	}
	add, ok := cmp.X.(*ssa.BinOp)
	if !ok || add.Op != token.ADD {
		return nil
	}
	phi, ok := add.X.(*ssa.Phi)
	if !ok || phi.Block() != h {
		return nil
	}
	if step, ok := ConstInt(add.Y); !ok || step != 1 {
		return nil
	}
	init, fromLatch, ok := phiInitAndLatch(phi, l)
	if !ok || fromLatch != ssa.Value(add) {
		return nil
	}
	// entered only when init < bound
	for _, p := range h.Preds {
		if l.Blocks[p] {
			continue
		}
		if len(p.Instrs) == 0 {
			return nil
		}
		pre, ok := p.Instrs[len(p.Instrs)-1].(*ssa.If)
		if !ok || p.Succs[0] != h {
			return nil
		}
		pc, ok := pre.Cond.(*ssa.BinOp)
		if !ok || pc.Op != token.LSS || pc.Y != cmp.Y {
			return nil
		}
		if k, isc := ConstInt(pc.X); !isc || k != init {
			return nil
		}
	}
	return &IndexLoop{Loop: l, If: iff, Bound: cmp.Y, Phi: phi, Index: phi, Start: init, Step: 1, Rotated: true}
}

// AsIndexLoop recognises l as an index loop, or returns nil.
func AsIndexLoop(l *Loop) *IndexLoop {
	h := l.Header
	if len(h.Instrs) == 0 {
		return nil
	}
	iff, ok := h.Instrs[len(h.Instrs)-1].(*ssa.If)
	if !ok {
		return asRotatedLoop(l)
	}
	cmp, ok := iff.Cond.(*ssa.BinOp)
	if !ok {
		return asRotatedLoop(l)
	}
	if il := asRotatedLoop(l); il != nil {
		return il
	}
	if !l.Blocks[h.Succs[0]] || l.Blocks[h.Succs[1]] {
		return nil
	}
	if cmp.Op == token.GEQ || cmp.Op == token.GTR {
		return asDescendingLoop(l, iff, cmp)
	}
	if cmp.Op != token.LSS {
		return nil
	}
	il := &IndexLoop{Loop: l, If: iff, Bound: cmp.Y}
	// range form: X = phi + 1, phi = [-1 outside, X latch]
	if add, ok := cmp.X.(*ssa.BinOp); ok && add.Op == token.ADD {
		if phi, ok := add.X.(*ssa.Phi); ok && phi.Block() == h {
			if step, ok := ConstInt(add.Y); ok && step == 1 {
				init, fromLatch, ok := phiInitAndLatch(phi, l)
				if ok && fromLatch == ssa.Value(add) {
					il.Phi, il.Index, il.Start, il.Step = phi, add, init+1, 1
					return il
				}
			}
		}
	}
	// classic form: X = phi, phi = [init outside, phi+1 latch]
	if phi, ok := cmp.X.(*ssa.Phi); ok && phi.Block() == h {
		init, fromLatch, ok := phiInitAndLatch(phi, l)
		if ok {
			if add, ok := fromLatch.(*ssa.BinOp); ok && add.Op == token.ADD && add.X == ssa.Value(phi) {
				if step, ok := ConstInt(add.Y); ok {
					il.Phi, il.Index, il.Start, il.Step = phi, phi, init, step
					return il
				}
			}
		}
		// loop-invariant, non-constant start
		if initV, fromLatch, ok := phiInitValueAndLatch(phi, l); ok {
			if add, ok := fromLatch.(*ssa.BinOp); ok && add.Op == token.ADD && add.X == ssa.Value(phi) {
				if step, ok := ConstInt(add.Y); ok {
					il.Phi, il.Index, il.StartVal, il.Start, il.Step = phi, phi, initV, -1, step
					return il
				}
			}
		}
	}
	return nil
}

// phiInitValueAndLatch is phiInitAndLatch for a loop-invariant (not
// necessarily constant) initial value.
func phiInitValueAndLatch(phi *ssa.Phi, l *Loop) (init, latch ssa.Value, ok bool) {
	for i, e := range phi.Edges {
		pred := phi.Block().Preds[i]
		if l.Blocks[pred] {
			if latch != nil && latch != e {
				return nil, nil, false
			}
			latch = e
		} else {
			if init != nil && init != e {
				return nil, nil, false
			}
			init = e
		}
	}
	if init == nil || latch == nil {
		return nil, nil, false
	}
	if in, isInstr := init.(ssa.Instruction); isInstr && l.Blocks[in.Block()] {
		return nil, nil, false
	}
	return init, latch, true
}

// phiInitAndLatch splits the edges of a header phi into the constant coming
// from outside the loop and the single value coming from inside.
func phiInitAndLatch(phi *ssa.Phi, l *Loop) (init int64, latch ssa.Value, ok bool) {
	haveInit := false
	for i, e := range phi.Edges {
		pred := phi.Block().Preds[i]
		if l.Blocks[pred] {
			if latch != nil && latch != e {
				return 0, nil, false
			}
			latch = e
		} else {
			c, isc := ConstInt(e)
			if !isc || (haveInit && c != init) {
				return 0, nil, false
			}
			init, haveInit = c, true
		}
	}
	return init, latch, haveInit && latch != nil
}

// LoopOf returns the innermost natural loop of fn that contains b.
func LoopOf(fn *ssa.Function, b *ssa.BasicBlock) *Loop {
	var best *Loop
	for _, l := range Loops(fn) {
		if l.Blocks[b] && (best == nil || len(l.Blocks) < len(best.Blocks)) {
			best = l
		}
	}
	return best
}

// CoversAll checks that action is executed on every iteration of the index
// loop (it dominates every latch) and that the loop is left early only into
// blocks accepted by okExit (e.g. "returns an error" / "returns false").
// It returns a description of the first problem, or "".
func (il *IndexLoop) CoversAll(action ssa.Instruction, okExit func(*ssa.BasicBlock) bool) string {
	l := il.Loop
	if !l.Blocks[action.Block()] {
		return "the action is not inside the loop"
	}
	for _, lt := range l.Latch {
		if !(action.Block() == lt || action.Block().Dominates(lt)) {
			return "some iteration reaches the next one without performing the action (a skipping continue)"
		}
	}
	for b := range l.Blocks {
		for _, s := range b.Succs {
			if l.Blocks[s] {
				continue
			}
			if b == il.If.Block() && s == il.If.Block().Succs[1] {
				continue
			}
			if okExit == nil || !okExit(s) {
				return "the loop is left early (break / return) before all elements were visited"
			}
		}
	}
	return ""
}

// FollowJumps follows unconditional jumps from b and returns the first block
// that does not end in a plain Jump.
func FollowJumps(b *ssa.BasicBlock) *ssa.BasicBlock {
	for steps := 0; steps < 64; steps++ {
		if len(b.Instrs) == 0 {
			return b
		}
		if _, ok := b.Instrs[len(b.Instrs)-1].(*ssa.Jump); ok && len(b.Succs) == 1 && onlyTrivial(b) {
			b = b.Succs[0]
			continue
		}
		return b
	}
	return b
}

func onlyTrivial(b *ssa.BasicBlock) bool {
	for _, in := range b.Instrs[:len(b.Instrs)-1] {
		switch in.(type) {
		case *ssa.DebugRef:
		default:
			return false
		}
	}
	return true
}

// ReturnOf returns the Return instruction ending b (after following trivial
// jumps), or nil.
func ReturnOf(b *ssa.BasicBlock) *ssa.Return {
	b = FollowJumps(b)
	if len(b.Instrs) == 0 {
		return nil
	}
	r, _ := b.Instrs[len(b.Instrs)-1].(*ssa.Return)
	return r
}

// ReturnsFailure reports whether block b (following trivial jumps) returns
// with a false verdict (last result constant false) or a non-nil error (the
// last result is of type error and is not the nil constant).
func ReturnsFailure(b *ssa.BasicBlock) bool {
	r := ReturnOf(b)
	if r == nil || len(r.Results) == 0 {
		return false
	}
	last := r.Results[len(r.Results)-1]
	if v, ok := ConstBool(last); ok {
		return !v
	}
	if IsErrorType(last.Type()) {
		return !IsNilConst(last)
	}
	return false
}

// FailureExit accepts blocks that return a failure (see ReturnsFailure) or
// panic.
func FailureExit(b *ssa.BasicBlock) bool {
	if ReturnsFailure(b) {
		return true
	}
	b = FollowJumps(b)
	if len(b.Instrs) > 0 {
		if _, ok := b.Instrs[len(b.Instrs)-1].(*ssa.Panic); ok {
			return true
		}
	}
	return false
}

// PossiblyTrueReturns lists the returns of a verdict function whose verdict is
// not the constant false.
func PossiblyTrueReturns(fn *ssa.Function, idx int) []*ssa.Return {
	var out []*ssa.Return
	for _, r := range Returns(fn) {
		if idx >= len(r.Results) {
			continue
		}
		if v, ok := ConstBool(r.Results[idx]); ok && !v {
			continue
		}
		out = append(out, r)
	}
	return out
}

// ReachableReturnsWithout returns the subset of rets reachable from the entry
// of fn when the listed edges are removed.
func ReachableReturnsWithout(fn *ssa.Function, rets []*ssa.Return, removed []CtrlEdge) []*ssa.Return {
	skip := func(from *ssa.BasicBlock, succ int) bool {
		for _, e := range removed {
			if e.Block == from && e.Succ == succ {
				return true
			}
		}
		return false
	}
	reach := Reach([]*ssa.BasicBlock{fn.Blocks[0]}, skip)
	idx, hasVerdict := VerdictIndex(fn.Signature)
	removedEdge := func(from, to *ssa.BasicBlock) bool {
		all := true
		any := false
		for i, s := range from.Succs {
			if s == to {
				any = true
				if !skip(from, i) {
					all = false
				}
			}
		}
		return any && all
	}
	// mayBeTrue: the verdict v, consumed in block at, can be something other than false on a way that survives
	// the removal (`return d, a && b` merges a constant false with b in a phi: the return itself stays reachable)
	var mayBeTrue func(v ssa.Value, at *ssa.BasicBlock, depth int) bool
	mayBeTrue = func(v ssa.Value, at *ssa.BasicBlock, depth int) bool {
		if c, ok := ConstBool(v); ok {
			return c && reach[at]
		}
		phi, ok := v.(*ssa.Phi)
		if !ok || depth > 6 {
			return reach[at]
		}
		for i, e := range phi.Edges {
			p := phi.Block().Preds[i]
			if !reach[p] || removedEdge(p, phi.Block()) {
				continue
			}
			if mayBeTrue(e, p, depth+1) {
				return true
			}
		}
		return false
	}
	var out []*ssa.Return
	for _, r := range rets {
		if !reach[r.Block()] {
			continue
		}
		if hasVerdict && idx < len(r.Results) {
			if _, isPhi := r.Results[idx].(*ssa.Phi); isPhi && !mayBeTrue(r.Results[idx], r.Block(), 0) {
				continue
			}
		}
		out = append(out, r)
	}
	return out
}

// Case is one arm of an equality dispatch (`switch x { case K: ... }` or an
// if/else-if chain) on a subject value.
type Case struct {
	If     *ssa.If
	Key    ssa.Value // the operand the subject is compared with
	Subj   ssa.Value // the subject operand itself
	Target *ssa.BasicBlock
	Else   *ssa.BasicBlock
	Neg    bool // the comparison was != (Target is still the "equal" successor)
}

// EqCases lists, in block order, the equality tests in fn one of whose
// operands satisfies isSubject.
func EqCases(fn *ssa.Function, isSubject func(ssa.Value) bool) []Case {
	var out []Case
	for _, b := range fn.Blocks {
		if len(b.Instrs) == 0 {
			continue
		}
		iff, ok := b.Instrs[len(b.Instrs)-1].(*ssa.If)
		if !ok {
			continue
		}
		cond, pos := StripNot(iff.Cond)
		cmp, ok := cond.(*ssa.BinOp)
		if !ok || (cmp.Op != token.EQL && cmp.Op != token.NEQ) {
			continue
		}
		var key, subj ssa.Value
		switch {
		case isSubject(cmp.X):
			key, subj = cmp.Y, cmp.X
		case isSubject(cmp.Y):
			key, subj = cmp.X, cmp.Y
		default:
			continue
		}
		eq := (cmp.Op == token.EQL) == pos
		c := Case{If: iff, Key: key, Subj: subj, Neg: cmp.Op == token.NEQ}
		if eq {
			c.Target, c.Else = b.Succs[0], b.Succs[1]
		} else {
			c.Target, c.Else = b.Succs[1], b.Succs[0]
		}
		out = append(out, c)
	}
	return out
}

// GlobalLoaded returns the global that v is a load of, or nil.
func GlobalLoaded(v ssa.Value) *ssa.Global {
	u, ok := v.(*ssa.UnOp)
	if !ok || u.Op != token.MUL {
		return nil
	}
	g, _ := u.X.(*ssa.Global)
	return g
}

// Describe renders a value for tables: loads of globals by name, constants by
// value, calls by resolved callee.
func Describe(v ssa.Value) string {
	if v == nil {
		return "<nil>"
	}
	if g := GlobalLoaded(v); g != nil {
		return "global:" + g.Pkg.Pkg.Name() + "." + g.Name()
	}
	switch x := v.(type) {
	case *ssa.Const:
		if x.Value == nil {
			return "const:nil"
		}
		return "const:" + x.Value.ExactString()
	case *ssa.Call:
		return "call:" + TrimModule(CalleeName(x))
	case *ssa.MakeInterface:
		return Describe(x.X)
	case *ssa.ChangeType:
		return Describe(x.X)
	case *ssa.Global:
		return "addr:" + x.Pkg.Pkg.Name() + "." + x.Name()
	case *ssa.Function:
		return "func:" + TrimModule(x.String())
	case *ssa.MakeClosure:
		return "closure:" + TrimModule(x.Fn.String())
	case *ssa.UnOp:
		if x.Op == token.MUL {
			if a, ok := x.X.(*ssa.Alloc); ok {
				// a composite literal: describe by type
				if pt, ok := a.Type().Underlying().(*types.Pointer); ok {
					return "lit:" + ShortType(pt.Elem())
				}
			}
		}
	}
	if p := Path(v); p != "" {
		return "path:" + p
	}
	return "value:" + v.Name() + ":" + ShortType(v.Type())
}

// PhiInitLatch splits the edges of a loop-header phi into the single
// loop-invariant value coming from outside the loop and the single value
// coming from inside.
func PhiInitLatch(phi *ssa.Phi, l *Loop) (init, latch ssa.Value, ok bool) {
	return phiInitValueAndLatch(phi, l)
}

// asDescendingLoop recognises `for i := n - 1; i >= 0; i--` (also `i > -1`).
func asDescendingLoop(l *Loop, iff *ssa.If, cmp *ssa.BinOp) *IndexLoop {
	k, isc := ConstInt(cmp.Y)
	if !isc || !(cmp.Op == token.GEQ && k == 0 || cmp.Op == token.GTR && k == -1) {
		return nil
	}
	phi, ok := cmp.X.(*ssa.Phi)
	if !ok || phi.Block() != l.Header {
		return nil
	}
	initV, fromLatch, ok := phiInitValueAndLatch(phi, l)
	if !ok {
		return nil
	}
	dec, ok := fromLatch.(*ssa.BinOp)
	if !ok || dec.X != ssa.Value(phi) {
		return nil
	}
	d, isc := ConstInt(dec.Y)
	if !isc || !(dec.Op == token.SUB && d == 1 || dec.Op == token.ADD && d == -1) {
		return nil
	}
	il := &IndexLoop{Loop: l, If: iff, Phi: phi, Index: phi, StartVal: initV, Start: -1, Step: -1, Descending: true}
	if top, ok := initV.(*ssa.BinOp); ok && top.Op == token.SUB {
		if one, isc := ConstInt(top.Y); isc && one == 1 {
			il.Bound = top.X
		}
	}
	return il
}
