package an

import (
	"go/types"
	"sort"
	"strings"

	"golang.org/x/tools/go/ssa"
)

// ReachableModuleFuncs computes the module functions reachable from roots:
// static callees, every module implementation of an invoked interface method
// (class-hierarchy resolution, a superset of VTA), every function or closure
// whose value is taken in reachable code (callbacks handed to the standard
// library), and deferred / go calls. Calls that leave the module are not
// followed (see the boundary table in rules).
func (p *Prog) ReachableModuleFuncs(roots ...*ssa.Function) map[*ssa.Function]bool {
	cha := p.CHA()
	seen := map[*ssa.Function]bool{}
	var work []*ssa.Function
	push := func(f *ssa.Function) {
		if f == nil || seen[f] || !InModule(f) || f.Blocks == nil {
			return
		}
		seen[f] = true
		work = append(work, f)
	}
	for _, r := range roots {
		push(r)
	}
	for len(work) > 0 {
		f := work[len(work)-1]
		work = work[:len(work)-1]
		if n := cha.Nodes[f]; n != nil {
			for _, e := range n.Out {
				push(e.Callee.Func)
			}
		}
		for _, b := range f.Blocks {
			for _, in := range b.Instrs {
				for _, op := range in.Operands(nil) {
					switch v := (*op).(type) {
					case *ssa.Function:
						push(v)
					case *ssa.MakeClosure:
						if fn, ok := v.Fn.(*ssa.Function); ok {
							push(fn)
						}
					}
				}
			}
		}
		for _, a := range f.AnonFuncs {
			// a closure defined in reachable code is conservatively reachable
			push(a)
		}
	}
	return seen
}

// ExtCall is a call site in module code whose callee is outside the module.
type ExtCall struct {
	Site   ssa.CallInstruction
	In     *ssa.Function
	Callee string // types.Func full name
	Pkg    string // package path of the callee ("" for builtins / dynamic)
	Invoke bool   // interface method call
}

// ExternalCalls lists the call sites in fns that leave the module, sorted by
// position. Dynamic calls through function values are reported with Pkg
// "dynamic".
func ExternalCalls(fns map[*ssa.Function]bool) []ExtCall {
	var out []ExtCall
	for f := range fns {
		for _, c := range Calls(f) {
			cc := c.Common()
			switch {
			case cc.IsInvoke():
				pk := ""
				if cc.Method.Pkg() != nil {
					pk = cc.Method.Pkg().Path()
				}
				if pk == Module || strings.HasPrefix(pk, Module+"/") {
					continue
				}
				out = append(out, ExtCall{Site: c, In: f, Callee: cc.Method.FullName(), Pkg: pk, Invoke: true})
			default:
				switch v := cc.Value.(type) {
				case *ssa.Builtin:
					continue
				case *ssa.Function:
					if InModule(v) {
						continue
					}
					pk := ""
					if o := v.Object(); o != nil && o.Pkg() != nil {
						pk = o.Pkg().Path()
					} else if v.Pkg != nil {
						pk = v.Pkg.Pkg.Path()
					}
					out = append(out, ExtCall{Site: c, In: f, Callee: CalleeName(c), Pkg: pk})
				case *ssa.MakeClosure:
					continue
				default:
					// call through a function value: in-module targets are
					// covered by the address-taken rule of reachability
					out = append(out, ExtCall{Site: c, In: f, Callee: "dynamic:" + ShortType(cc.Value.Type()), Pkg: "dynamic"})
				}
			}
		}
	}
	sort.Slice(out, func(i, j int) bool {
		if out[i].Site.Pos() != out[j].Site.Pos() {
			return out[i].Site.Pos() < out[j].Site.Pos()
		}
		return out[i].Callee < out[j].Callee
	})
	return out
}

// CallersOf returns the module call sites that may call f (CHA edges).
func (p *Prog) CallersOf(f *ssa.Function) []ssa.CallInstruction {
	var out []ssa.CallInstruction
	if n := p.CHA().Nodes[f]; n != nil {
		for _, e := range n.In {
			if e.Site != nil && InModule(e.Caller.Func) {
				out = append(out, e.Site)
			}
		}
	}
	return out
}

// AddressTaken reports whether f's value is used other than as the callee of a
// static call somewhere in the module.
func (p *Prog) AddressTaken(f *ssa.Function) bool {
	for _, g := range p.ModuleFuncs() {
		for _, b := range g.Blocks {
			for _, in := range b.Instrs {
				call, isCall := in.(ssa.CallInstruction)
				for i, op := range in.Operands(nil) {
					if *op != ssa.Value(f) {
						continue
					}
					if isCall && i == 0 && call.Common().Value == ssa.Value(f) {
						continue
					}
					return true
				}
			}
		}
	}
	return false
}

// StoresIn lists Store instructions, map updates and in-place mutators in fn.
func StoresIn(fn *ssa.Function) []ssa.Instruction {
	var out []ssa.Instruction
	for _, b := range fn.Blocks {
		for _, in := range b.Instrs {
			switch in.(type) {
			case *ssa.Store, *ssa.MapUpdate:
				out = append(out, in)
			}
		}
	}
	return out
}

// IsPointerLike reports whether stores through a value of type t are visible
// to other holders of the value.
func IsPointerLike(t types.Type) bool {
	switch t.Underlying().(type) {
	case *types.Pointer, *types.Slice, *types.Map, *types.Chan, *types.Interface, *types.Signature:
		return true
	}
	return false
}
