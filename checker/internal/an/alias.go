package an

import (
	"go/types"
	"regexp"
	"sort"
	"strings"
)

// Name aliases: the rules refer to private struct types and their fields by
// the names they had when the rules were written (the baseline schema). When
// the analysed tree has renamed a private struct type or a field, it is
// recognised by its shape — same package, same multiset of field types for a
// type; the only field of that type for a field — and the rules go on seeing
// the baseline name. A type or field that cannot be recognised keeps its real
// name (the rules anchored on it then report it missing, which fails the check).

// SchemaField is one field of a baseline struct: name and type (ShortType).
type SchemaField struct{ Name, Type string }

// Schema: package (module-relative) -> struct type name -> fields in order.
type Schema map[string]map[string][]SchemaField

// BaselineSchema is set by package rules before any program is loaded.
var BaselineSchema Schema

// BaselineParams: package (module-relative) -> function ("f" or "T.m") ->
// names of the receiver (if any) and the parameters, in order. The rules name
// values by access paths rooted at these names ("r.errors", "m.Name", "got").
var BaselineParams map[string]map[string][]string

var aliasParam = map[*types.Var]string{} // renamed receiver / parameter -> baseline name

// CanonParamName returns the baseline name of a receiver or parameter.
func CanonParamName(v *types.Var) string {
	if n, ok := aliasParam[v]; ok {
		return n
	}
	return v.Name()
}

func funcSpecOf(fn *types.Func) string {
	sig, _ := fn.Type().(*types.Signature)
	if sig == nil || sig.Recv() == nil {
		return fn.Name()
	}
	t := sig.Recv().Type()
	if p, ok := t.(*types.Pointer); ok {
		t = p.Elem()
	}
	if n, ok := t.(*types.Named); ok {
		return CanonTypeName(n.Obj()) + "." + fn.Name()
	}
	return fn.Name()
}

func paramVars(fn *types.Func) []*types.Var {
	sig, _ := fn.Type().(*types.Signature)
	if sig == nil {
		return nil
	}
	var out []*types.Var
	if sig.Recv() != nil {
		out = append(out, sig.Recv())
	}
	for i := 0; i < sig.Params().Len(); i++ {
		out = append(out, sig.Params().At(i))
	}
	return out
}

// buildParamAliases maps renamed receivers and parameters of functions that
// still have their baseline name (and arity) back to the baseline names.
func (p *Prog) buildParamAliases() {
	aliasParam = map[*types.Var]string{}
	if BaselineParams == nil {
		return
	}
	for _, pk := range p.Pkgs {
		rel := strings.TrimPrefix(strings.TrimPrefix(pk.PkgPath, Module), "/")
		base := BaselineParams[rel]
		if base == nil || pk.TypesInfo == nil {
			continue
		}
		for _, obj := range pk.TypesInfo.Defs {
			fn, ok := obj.(*types.Func)
			if !ok {
				continue
			}
			names, ok := base[funcSpecOf(fn)]
			if !ok {
				continue
			}
			vars := paramVars(fn)
			if len(vars) != len(names) {
				continue
			}
			for i, v := range vars {
				if v.Name() != names[i] && names[i] != "" && names[i] != "_" && v.Name() != "" && v.Name() != "_" {
					aliasParam[v] = names[i]
				}
			}
		}
	}
}

// DumpParams renders receiver and parameter names in baseline form.
func (p *Prog) DumpParams() map[string]map[string][]string {
	out := map[string]map[string][]string{}
	for _, pk := range p.Pkgs {
		if pk.TypesInfo == nil {
			continue
		}
		rel := strings.TrimPrefix(strings.TrimPrefix(pk.PkgPath, Module), "/")
		for _, obj := range pk.TypesInfo.Defs {
			fn, ok := obj.(*types.Func)
			if !ok {
				continue
			}
			var names []string
			for _, v := range paramVars(fn) {
				names = append(names, v.Name())
			}
			if out[rel] == nil {
				out[rel] = map[string][]string{}
			}
			out[rel][funcSpecOf(fn)] = names
		}
	}
	return out
}

var (
	aliasType  = map[*types.TypeName]string{} // renamed type -> baseline name
	aliasField = map[*types.Var]string{}      // renamed field -> baseline name
	actualType = map[string]string{}          // "rel|BaselineName" -> actual name
	aliasRe    *regexp.Regexp
	aliasRepl  = map[string]string{} // "pkgname.Actual" / "pkgpath.Actual" -> with baseline name
)

// CanonTypeName returns the baseline name of a named type's object.
func CanonTypeName(tn *types.TypeName) string {
	if n, ok := aliasType[tn]; ok {
		return n
	}
	return tn.Name()
}

// CanonFieldName returns the baseline name of a struct field.
func CanonFieldName(f *types.Var) string {
	if n, ok := aliasField[f]; ok {
		return n
	}
	return f.Name()
}

// ActualTypeName maps a baseline type name of package rel to the name the
// analysed tree uses.
func ActualTypeName(rel, name string) string {
	if n, ok := actualType[rel+"|"+name]; ok {
		return n
	}
	return name
}

func canonTypeString(s string) string {
	if aliasRe == nil {
		return s
	}
	return aliasRe.ReplaceAllStringFunc(s, func(m string) string {
		if r, ok := aliasRepl[m]; ok {
			return r
		}
		return m
	})
}

// buildAliases compares the structs of the module with the baseline schema.
func (p *Prog) buildAliases() {
	aliasType = map[*types.TypeName]string{}
	aliasField = map[*types.Var]string{}
	actualType = map[string]string{}
	aliasRe, aliasRepl = nil, map[string]string{}
	if BaselineSchema == nil {
		return
	}
	type actual struct {
		tn *types.TypeName
		st *types.Struct
	}
	rawShort := func(t types.Type) string {
		return types.TypeString(t, func(pk *types.Package) string { return pk.Name() })
	}
	for round := 0; round < 2; round++ { // second round sees field types that mention types renamed in the first
		for _, pk := range p.Pkgs {
			rel := strings.TrimPrefix(strings.TrimPrefix(pk.PkgPath, Module), "/")
			base := BaselineSchema[rel]
			if base == nil || pk.Types == nil {
				continue
			}
			acts := map[string]actual{}
			scope := pk.Types.Scope()
			for _, n := range scope.Names() {
				tn, ok := scope.Lookup(n).(*types.TypeName)
				if !ok {
					continue
				}
				if st, ok := tn.Type().Underlying().(*types.Struct); ok {
					acts[n] = actual{tn, st}
				}
			}
			sig := func(fields []string) string {
				s := append([]string{}, fields...)
				sort.Strings(s)
				return strings.Join(s, ";")
			}
			// types whose baseline name is gone: match by the multiset of field types
			for bname, bfields := range base {
				if _, present := acts[bname]; present {
					continue
				}
				var bt []string
				for _, f := range bfields {
					bt = append(bt, f.Type)
				}
				var cands []string
				for an, a := range acts {
					if _, isBase := base[an]; isBase {
						continue
					}
					var at []string
					for i := 0; i < a.st.NumFields(); i++ {
						at = append(at, canonTypeString(rawShort(a.st.Field(i).Type())))
					}
					if len(at) == len(bt) && sig(at) == sig(bt) {
						cands = append(cands, an)
					}
				}
				if len(cands) == 1 {
					a := acts[cands[0]]
					aliasType[a.tn] = bname
					actualType[rel+"|"+bname] = cands[0]
					aliasRepl[pk.Types.Name()+"."+cands[0]] = pk.Types.Name() + "." + bname
					aliasRepl[pk.PkgPath+"."+cands[0]] = pk.PkgPath + "." + bname
				}
			}
			// fields: of types present under their own or an aliased name
			for an, a := range acts {
				bname := an
				if c, ok := aliasType[a.tn]; ok {
					bname = c
				}
				bfields, ok := base[bname]
				if !ok {
					continue
				}
				have := map[string]bool{}
				for i := 0; i < a.st.NumFields(); i++ {
					have[a.st.Field(i).Name()] = true
				}
				for i := 0; i < a.st.NumFields(); i++ {
					fv := a.st.Field(i)
					known := false
					for _, bf := range bfields {
						if bf.Name == fv.Name() {
							known = true
						}
					}
					if known {
						continue
					}
					ft := canonTypeString(rawShort(fv.Type()))
					// unique among the actual fields and among the baseline fields that are gone
					nAct := 0
					for j := 0; j < a.st.NumFields(); j++ {
						if canonTypeString(rawShort(a.st.Field(j).Type())) == ft {
							nAct++
						}
					}
					var match []string
					for _, bf := range bfields {
						if bf.Type == ft && !have[bf.Name] {
							match = append(match, bf.Name)
						}
					}
					if nAct == 1 && len(match) == 1 {
						aliasField[fv] = match[0]
					}
				}
			}
		}
		if len(aliasRepl) > 0 {
			var alts []string
			for k := range aliasRepl {
				alts = append(alts, regexp.QuoteMeta(k))
			}
			sort.Slice(alts, func(i, j int) bool { return len(alts[i]) > len(alts[j]) })
			aliasRe = regexp.MustCompile(`(` + strings.Join(alts, "|") + `)\b`)
		}
	}
}

// DumpSchema renders the struct types of the module in baseline form.
func (p *Prog) DumpSchema() Schema {
	out := Schema{}
	for _, pk := range p.Pkgs {
		if pk.Types == nil {
			continue
		}
		rel := strings.TrimPrefix(strings.TrimPrefix(pk.PkgPath, Module), "/")
		scope := pk.Types.Scope()
		for _, n := range scope.Names() {
			tn, ok := scope.Lookup(n).(*types.TypeName)
			if !ok {
				continue
			}
			st, ok := tn.Type().Underlying().(*types.Struct)
			if !ok {
				continue
			}
			var fs []SchemaField
			for i := 0; i < st.NumFields(); i++ {
				fs = append(fs, SchemaField{st.Field(i).Name(), types.TypeString(st.Field(i).Type(), func(pk *types.Package) string { return pk.Name() })})
			}
			if out[rel] == nil {
				out[rel] = map[string][]SchemaField{}
			}
			out[rel][n] = fs
		}
	}
	return out
}
