package an

import (
	"fmt"
	"go/constant"
	"go/token"
	"go/types"
	"strings"

	"golang.org/x/tools/go/ssa"
)

// Calls lists the call instructions (call, go, defer) of fn in block order.
func Calls(fn *ssa.Function) []ssa.CallInstruction {
	var out []ssa.CallInstruction
	for _, b := range fn.Blocks {
		for _, in := range b.Instrs {
			if c, ok := in.(ssa.CallInstruction); ok {
				out = append(out, c)
			}
		}
	}
	return out
}

// CalleeName returns a resolved, printable name of what a call invokes:
// types.Func.FullName for static calls and interface method calls (e.g.
// "os.WriteFile", "(*go/token.File).Line", "(reflect.Value).Set",
// "(github.com/uber-go/gopatch/internal/engine.Matcher).Match"), "builtin:len"
// for builtins, "closure:<fn>" for calls of anonymous functions, and
// "dynamic:<type>" for calls through function values.
func CalleeName(c ssa.CallInstruction) string {
	cc := c.Common()
	if cc.IsInvoke() {
		return cc.Method.FullName()
	}
	switch v := cc.Value.(type) {
	case *ssa.Builtin:
		return "builtin:" + v.Name()
	case *ssa.Function:
		if o := v.Object(); o != nil {
			if f, ok := o.(*types.Func); ok {
				return f.FullName()
			}
		}
		return "closure:" + v.String()
	case *ssa.MakeClosure:
		return "closure:" + v.Fn.String()
	}
	return "dynamic:" + cc.Value.Type().String()
}

// StaticCallee is cc.StaticCallee() also unwrapping closures.
func StaticCallee(c ssa.CallInstruction) *ssa.Function {
	return c.Common().StaticCallee()
}

// IsCallTo reports whether c (statically, or by interface method) calls one of
// the given full names.
func IsCallTo(c ssa.CallInstruction, names ...string) bool {
	n := CalleeName(c)
	for _, x := range names {
		if n == x {
			return true
		}
	}
	return false
}

// CallsTo lists the call instructions in fn to any of the given full names.
func CallsTo(fn *ssa.Function, names ...string) []ssa.CallInstruction {
	var out []ssa.CallInstruction
	for _, c := range Calls(fn) {
		if IsCallTo(c, names...) {
			out = append(out, c)
		}
	}
	return out
}

// CallArgs returns the actual arguments of the call including the receiver for
// both static method calls and interface invocations (receiver first).
func CallArgs(c ssa.CallInstruction) []ssa.Value {
	cc := c.Common()
	if cc.IsInvoke() {
		return append([]ssa.Value{cc.Value}, cc.Args...)
	}
	return cc.Args
}

// CallSig returns the signature of the callee.
func CallSig(c ssa.CallInstruction) *types.Signature { return c.Common().Signature() }

// ExtractOf returns the Extract instructions taking result idx of a tuple value.
func ExtractOf(v ssa.Value, idx int) []*ssa.Extract {
	var out []*ssa.Extract
	refs := v.Referrers()
	if refs == nil {
		return nil
	}
	for _, r := range *refs {
		if e, ok := r.(*ssa.Extract); ok && e.Index == idx {
			out = append(out, e)
		}
	}
	return out
}

// Unwrap strips value-preserving conversions (ChangeType, Convert between
// named/underlying of the same kind, ChangeInterface, MakeInterface).
func Unwrap(v ssa.Value) ssa.Value {
	for {
		switch x := v.(type) {
		case *ssa.ChangeType:
			v = x.X
		case *ssa.ChangeInterface:
			v = x.X
		case *ssa.MakeInterface:
			v = x.X
		case *ssa.Convert:
			v = x.X
		default:
			return v
		}
	}
}

// ConstOf returns the constant value of v (after Unwrap) if it is one.
func ConstOf(v ssa.Value) (*ssa.Const, bool) {
	c, ok := Unwrap(v).(*ssa.Const)
	return c, ok
}

// ConstBool returns the boolean constant v denotes.
func ConstBool(v ssa.Value) (val, ok bool) {
	c, is := v.(*ssa.Const)
	if !is || c.Value == nil || c.Value.Kind() != constant.Bool {
		return false, false
	}
	return constant.BoolVal(c.Value), true
}

// ConstString returns the string constant v denotes.
func ConstString(v ssa.Value) (string, bool) {
	c, is := ConstOf(v)
	if !is || c.Value == nil || c.Value.Kind() != constant.String {
		return "", false
	}
	return constant.StringVal(c.Value), true
}

// ConstInt returns the integer constant v denotes.
func ConstInt(v ssa.Value) (int64, bool) {
	c, is := ConstOf(v)
	if !is || c.Value == nil || c.Value.Kind() != constant.Int {
		return 0, false
	}
	i, exact := constant.Int64Val(c.Value)
	return i, exact
}

// IsNilConst reports whether v is the nil constant.
func IsNilConst(v ssa.Value) bool {
	c, is := v.(*ssa.Const)
	return is && c.Value == nil
}

// SliceOpts configures BackSlice.
type SliceOpts struct {
	// ThroughCalls: the result of a call depends on all its arguments (and
	// receiver).  Always true for data slices used in "depends on" rules.
	ThroughCalls bool
	// ThroughMemory: a load *p depends on every store to an address with the
	// same access path in the same function.
	ThroughMemory bool
}

// BackSlice computes the backward data slice of v inside its function: every
// value v may have been computed from.
func BackSlice(v ssa.Value, o SliceOpts) map[ssa.Value]bool {
	seen := map[ssa.Value]bool{}
	var visit func(ssa.Value)
	visit = func(x ssa.Value) {
		if x == nil || seen[x] {
			return
		}
		seen[x] = true
		switch t := x.(type) {
		case *ssa.Phi:
			for _, e := range t.Edges {
				visit(e)
			}
		case *ssa.Call:
			if o.ThroughCalls {
				for _, a := range CallArgs(t) {
					visit(a)
				}
				if !t.Call.IsInvoke() {
					visit(t.Call.Value)
				}
			}
		case *ssa.MakeClosure:
			for _, b := range t.Bindings {
				visit(b)
			}
		case *ssa.Alloc:
			// the contents of a local (array backing a variadic call, composite
			// literal, spilled variable): everything stored into it
			if o.ThroughMemory && x.Parent() != nil {
				for _, b := range x.Parent().Blocks {
					for _, in := range b.Instrs {
						if st, ok := in.(*ssa.Store); ok && Root(st.Addr) == ssa.Value(t) {
							visit(st.Val)
						}
					}
				}
			}
		case *ssa.MakeSlice:
			// the contents of a slice made here: everything stored into its elements
			visit(t.Len)
			visit(t.Cap)
			if o.ThroughMemory && x.Parent() != nil {
				for _, b := range x.Parent().Blocks {
					for _, in := range b.Instrs {
						if st, ok := in.(*ssa.Store); ok && Root(st.Addr) == ssa.Value(t) {
							visit(st.Val)
						}
					}
				}
			}
		case *ssa.UnOp:
			visit(t.X)
			if o.ThroughMemory && t.Op == token.MUL {
				path := Path(t.X)
				if path != "" && x.Parent() != nil {
					for _, b := range x.Parent().Blocks {
						for _, in := range b.Instrs {
							if st, ok := in.(*ssa.Store); ok && Path(st.Addr) == path {
								visit(st.Val)
							}
						}
					}
				}
			}
		case ssa.Instruction:
			for _, op := range t.Operands(nil) {
				if *op != nil {
					visit(*op)
				}
			}
		}
	}
	visit(v)
	return seen
}

// DependsOn reports whether v's backward slice contains w.
func DependsOn(v, w ssa.Value, o SliceOpts) bool { return BackSlice(v, o)[w] }

// CanonicalLocal, when set, names a local variable by what it holds rather
// than by what the source calls it (the rules refer to the match-data record
// a function looks up as "fd", whatever the local is called).
var CanonicalLocal func(*ssa.Alloc) string

// Path renders the access path of an address or value rooted at a parameter,
// free variable, global or allocation: e.g. "m.Type", "*cmd.Stdout",
// "file.Name.Name", "fd.Matches[i]". Values that are not simple paths render
// as "" (unknown). Pointer dereference is implicit (Go selector semantics), so
// both the FieldAddr and the loaded value of a field share the path.
func Path(v ssa.Value) string {
	switch x := v.(type) {
	case *ssa.Parameter:
		return ParamName(x)
	case *ssa.FreeVar:
		return x.Name()
	case *ssa.Global:
		return x.Pkg.Pkg.Name() + "." + x.Name()
	case *ssa.Alloc:
		if CanonicalLocal != nil {
			if n := CanonicalLocal(x); n != "" {
				return n
			}
		}
		if x.Comment != "" {
			// a spilled receiver / parameter is named like the parameter it holds
			if fn := x.Parent(); fn != nil {
				for _, prm := range fn.Params {
					if prm.Name() == x.Comment {
						return ParamName(prm)
					}
				}
			}
			return x.Comment
		}
		return ""
	case *ssa.FieldAddr:
		b := Path(x.X)
		if b == "" {
			return ""
		}
		return b + "." + fieldName(x.X.Type(), x.Field)
	case *ssa.Field:
		b := Path(x.X)
		if b == "" {
			return ""
		}
		return b + "." + fieldName(x.X.Type(), x.Field)
	case *ssa.UnOp:
		if x.Op == token.MUL {
			return Path(x.X)
		}
	case *ssa.IndexAddr:
		b := Path(x.X)
		if b == "" {
			return ""
		}
		return b + "[]"
	case *ssa.Index:
		b := Path(x.X)
		if b == "" {
			return ""
		}
		return b + "[]"
	case *ssa.ChangeType:
		return Path(x.X)
	case *ssa.MakeInterface:
		return Path(x.X)
	case *ssa.MakeSlice:
		// a slice made in this function: its elements are addressable memory of the function
		return "$" + x.Name()
	}
	return ""
}

func fieldName(t types.Type, i int) string {
	if p, ok := t.Underlying().(*types.Pointer); ok {
		t = p.Elem()
	}
	if s, ok := t.Underlying().(*types.Struct); ok && i < s.NumFields() {
		return CanonFieldName(s.Field(i))
	}
	return fmt.Sprintf("#%d", i)
}

// Root returns the parameter / free variable / global / alloc an address or
// value path is rooted at, looking through field, index, deref, slicing and
// conversions.
func Root(v ssa.Value) ssa.Value {
	for {
		switch x := v.(type) {
		case *ssa.FieldAddr:
			v = x.X
		case *ssa.Field:
			v = x.X
		case *ssa.IndexAddr:
			v = x.X
		case *ssa.Index:
			v = x.X
		case *ssa.Slice:
			v = x.X
		case *ssa.UnOp:
			if x.Op != token.MUL {
				return v
			}
			v = x.X
		case *ssa.ChangeType:
			v = x.X
		case *ssa.MakeInterface:
			v = x.X
		case *ssa.ChangeInterface:
			v = x.X
		case *ssa.TypeAssert:
			v = x.X
		case *ssa.Extract:
			return v
		default:
			return v
		}
	}
}

// TypeString renders a type with the module prefix and go/ package prefixes
// kept (qualified by path), so tables can be compared.
func TypeString(t types.Type) string {
	return canonTypeString(types.TypeString(t, func(p *types.Package) string { return p.Path() }))
}

// ShortType renders a type qualified by package name only.
func ShortType(t types.Type) string {
	return canonTypeString(types.TypeString(t, func(p *types.Package) string { return p.Name() }))
}

// IsNamed reports whether t (or *t) is the named type path.name.
func IsNamed(t types.Type, path, name string) bool {
	if p, ok := t.(*types.Pointer); ok {
		t = p.Elem()
	}
	n, ok := t.(*types.Named)
	if !ok {
		return false
	}
	o := n.Obj()
	return CanonTypeName(o) == name && o.Pkg() != nil && o.Pkg().Path() == path
}

// HasResultTypes reports whether sig's results end with the named types given
// as "path.Name" (or "bool", "error", "int").
func ResultTypeNames(sig *types.Signature) []string {
	var out []string
	for i := 0; i < sig.Results().Len(); i++ {
		out = append(out, TypeString(sig.Results().At(i).Type()))
	}
	return out
}

// IsErrorType reports whether t is the predeclared error interface.
func IsErrorType(t types.Type) bool {
	return types.Identical(t, types.Universe.Lookup("error").Type())
}

// TrimModule shortens names for reports.
func TrimModule(s string) string {
	return strings.ReplaceAll(s, Module+"/", "")
}

// CellAliases returns v together with the loads that read v back from a local
// cell it was spilled into (named results and captured variables are
// heap/stack cells in SSA): a load of cell A aliases v when the closest
// preceding store to A in the same block stores v, or when v's store is the
// only store to A.
func CellAliases(v ssa.Value) map[ssa.Value]bool {
	out := map[ssa.Value]bool{v: true}
	refs := v.Referrers()
	if refs == nil {
		return out
	}
	for _, u := range *refs {
		st, ok := u.(*ssa.Store)
		if !ok || st.Val != v {
			continue
		}
		al, ok := st.Addr.(*ssa.Alloc)
		if !ok {
			continue
		}
		nStores := 0
		for _, w := range *al.Referrers() {
			if _, isSt := w.(*ssa.Store); isSt {
				nStores++
			}
		}
		b := st.Block()
		idx := InstrBlockIndex(st)
		for _, in := range b.Instrs[idx+1:] {
			if st2, isSt := in.(*ssa.Store); isSt && st2.Addr == ssa.Value(al) {
				break
			}
			if ld, isLd := in.(*ssa.UnOp); isLd && ld.Op == token.MUL && ld.X == ssa.Value(al) {
				out[ld] = true
			}
		}
		if nStores == 1 {
			for _, w := range *al.Referrers() {
				if ld, isLd := w.(*ssa.UnOp); isLd && ld.Op == token.MUL {
					out[ld] = true
				}
			}
		}
	}
	return out
}

// ConstIntOf converts a constant.Value to int64.
func ConstIntOf(v constant.Value) (int64, bool) {
	if v == nil || v.Kind() != constant.Int {
		return 0, false
	}
	return constant.Int64Val(v)
}

// ParamName is the name the rules know a receiver or parameter by: its
// baseline name when it was merely renamed.
func ParamName(p *ssa.Parameter) string {
	if v, ok := p.Object().(*types.Var); ok && v != nil {
		return CanonParamName(v)
	}
	return p.Name()
}
