// Package an is the analysis library behind gpcheck: it loads /repo's current
// working tree with go/packages, builds go/ssa form and a VTA call graph, and
// offers the small set of reusable analyses (A1..A10 of DESIGN.md) the rules
// are written in.
package an

import (
	"fmt"
	"go/ast"
	"go/token"
	"go/types"
	"os"
	"sort"
	"strings"

	"golang.org/x/tools/go/callgraph"
	"golang.org/x/tools/go/callgraph/cha"
	"golang.org/x/tools/go/callgraph/vta"
	"golang.org/x/tools/go/packages"
	"golang.org/x/tools/go/ssa"
	"golang.org/x/tools/go/ssa/ssautil"
)

// Module is the import path of the module under analysis.
const Module = "github.com/uber-go/gopatch"

// Prog is the loaded, type-checked and SSA-built program.
type Prog struct {
	roleCache map[string]*ssa.Function
	Dir       string
	Fset      *token.FileSet
	Pkgs      []*packages.Package          // module packages, sorted by path
	ByP       map[string]*packages.Package // import path -> package (module and deps)
	SSA       *ssa.Program
	SPkg      map[string]*ssa.Package // import path -> ssa package (module and deps)
	cgVTA     *callgraph.Graph
	cgCHA     *callgraph.Graph
	pdom      map[*ssa.Function]*PostDom
	cdep      map[*ssa.Function]CtrlDeps

	// statistics for evidence
	NFuncs int
}

// Load loads dir/... . Any load or type error is returned: a checker that
// analyses half a program decides nothing.
func Load(dir string) (*Prog, error) {
	env := append(os.Environ(),
		"GOFLAGS=-mod=mod", "GOPROXY=off", "GOSUMDB=off", "GOTOOLCHAIN=local", "GOWORK=off", "CGO_ENABLED=0")
	cfg := &packages.Config{
		Mode: packages.LoadAllSyntax,
		Dir:  dir,
		Env:  env,
	}
	all, err := packages.Load(cfg, "./...")
	if err != nil {
		return nil, fmt.Errorf("load %s: %w", dir, err)
	}
	var errs []string
	packages.Visit(all, nil, func(p *packages.Package) {
		for _, e := range p.Errors {
			errs = append(errs, e.Error())
		}
	})
	if len(errs) > 0 {
		sort.Strings(errs)
		if len(errs) > 10 {
			errs = errs[:10]
		}
		return nil, fmt.Errorf("load %s: %d package error(s): %s", dir, len(errs), strings.Join(errs, "; "))
	}
	p := &Prog{Dir: dir, ByP: map[string]*packages.Package{}, SPkg: map[string]*ssa.Package{},
		pdom: map[*ssa.Function]*PostDom{}, cdep: map[*ssa.Function]CtrlDeps{}}
	for _, pk := range all {
		if pk.PkgPath == Module || strings.HasPrefix(pk.PkgPath, Module+"/") {
			p.Pkgs = append(p.Pkgs, pk)
		}
	}
	sort.Slice(p.Pkgs, func(i, j int) bool { return p.Pkgs[i].PkgPath < p.Pkgs[j].PkgPath })
	if len(p.Pkgs) == 0 {
		return nil, fmt.Errorf("load %s: no package of module %s found", dir, Module)
	}
	p.Fset = p.Pkgs[0].Fset
	packages.Visit(all, nil, func(pk *packages.Package) { p.ByP[pk.PkgPath] = pk })

	prog, _ := ssautil.AllPackages(all, ssa.BuilderMode(0))
	prog.Build()
	p.SSA = prog
	for _, sp := range prog.AllPackages() {
		p.SPkg[sp.Pkg.Path()] = sp
	}
	for _, pk := range p.Pkgs {
		if p.SPkg[pk.PkgPath] == nil {
			return nil, fmt.Errorf("no SSA package for %s", pk.PkgPath)
		}
	}
	p.NFuncs = len(p.ModuleFuncs())
	p.buildAliases()
	p.buildParamAliases()
	p.BuildBindings()
	Current = p
	return p, nil
}

// InModule reports whether fn belongs to the module under analysis.
func InModule(fn *ssa.Function) bool {
	if fn == nil {
		return false
	}
	pk := fn.Pkg
	if pk == nil && fn.Parent() != nil {
		return InModule(fn.Parent())
	}
	if pk == nil {
		if o := fn.Object(); o != nil && o.Pkg() != nil {
			return o.Pkg().Path() == Module || strings.HasPrefix(o.Pkg().Path(), Module+"/")
		}
		return false
	}
	path := pk.Pkg.Path()
	return path == Module || strings.HasPrefix(path, Module+"/")
}

// ModuleFuncs returns every source function (including methods and closures)
// of the module, sorted by position.
// Current is the program loaded last (one per process).
var Current *Prog

func (p *Prog) ModuleFuncs() []*ssa.Function {
	var out []*ssa.Function
	for fn := range ssautil.AllFunctions(p.SSA) {
		if fn.Synthetic != "" || fn.Blocks == nil {
			continue
		}
		if InModule(fn) {
			out = append(out, fn)
		}
	}
	sort.Slice(out, func(i, j int) bool {
		if out[i].Pos() != out[j].Pos() {
			return out[i].Pos() < out[j].Pos()
		}
		return out[i].String() < out[j].String()
	})
	return out
}

// PkgFuncs returns the module functions defined in the package with the given
// path relative to the module ("" for the root package).
func (p *Prog) PkgFuncs(rel string) []*ssa.Function {
	path := PkgPath(rel)
	var out []*ssa.Function
	for _, fn := range p.ModuleFuncs() {
		if FuncPkgPath(fn) == path {
			out = append(out, fn)
		}
	}
	return out
}

// PkgPath turns a module-relative path into an import path.
func PkgPath(rel string) string {
	if rel == "" {
		return Module
	}
	return Module + "/" + rel
}

// FuncPkgPath returns the import path of the package that declares fn
// (closures: of the enclosing function).
func FuncPkgPath(fn *ssa.Function) string {
	for fn.Parent() != nil {
		fn = fn.Parent()
	}
	if fn.Pkg != nil {
		return fn.Pkg.Pkg.Path()
	}
	if o := fn.Object(); o != nil && o.Pkg() != nil {
		return o.Pkg().Path()
	}
	return ""
}

// Func resolves a function or method of the module through the type checker.
// spec is "name" for a package-level function, "T.M" for a method of T or *T.
// Returns nil when it does not exist (the caller reports an unresolved anchor).
func (p *Prog) Func(rel, spec string) *ssa.Function {
	if f := p.funcByName(rel, spec); f != nil {
		return f
	}
	// renamed? resolve the anchor by the role it plays (set by package rules)
	if RoleResolver != nil {
		key := rel + "|" + spec
		if p.roleCache == nil {
			p.roleCache = map[string]*ssa.Function{}
		}
		if f, ok := p.roleCache[key]; ok {
			return f
		}
		p.roleCache[key] = nil // guards against recursion
		f := RoleResolver(p, rel, spec)
		p.roleCache[key] = f
		return f
	}
	return nil
}

// RoleResolver finds an anchored function that is no longer known under its
// name by what it does (e.g. "the function of package main that calls
// filepath.Walk").
var RoleResolver func(p *Prog, rel, spec string) *ssa.Function

func (p *Prog) funcByName(rel, spec string) *ssa.Function {
	sp := p.SPkg[PkgPath(rel)]
	if sp == nil {
		return nil
	}
	if i := strings.IndexByte(spec, '.'); i >= 0 {
		tname, mname := spec[:i], spec[i+1:]
		tname = ActualTypeName(rel, tname)
		obj := sp.Pkg.Scope().Lookup(tname)
		tn, ok := obj.(*types.TypeName)
		if !ok {
			return nil
		}
		for _, t := range []types.Type{tn.Type(), types.NewPointer(tn.Type())} {
			ms := p.SSA.MethodSets.MethodSet(t)
			for i := 0; i < ms.Len(); i++ {
				sel := ms.At(i)
				if sel.Obj().Name() == mname && len(sel.Index()) == 1 { // declared on T itself, not promoted
					if fn := p.SSA.MethodValue(sel); fn != nil && fn.Synthetic == "" {
						return fn
					}
				}
			}
		}
		return nil
	}
	return sp.Func(spec)
}

// Global resolves a package-level variable.
func (p *Prog) Global(rel, name string) *ssa.Global {
	sp := p.SPkg[PkgPath(rel)]
	if sp == nil {
		return nil
	}
	return sp.Var(name)
}

// NamedType resolves a named type of the module.
func (p *Prog) NamedType(rel, name string) *types.Named {
	pk := p.ByP[PkgPath(rel)]
	if pk == nil || pk.Types == nil {
		return nil
	}
	tn, ok := pk.Types.Scope().Lookup(ActualTypeName(rel, name)).(*types.TypeName)
	if !ok {
		return nil
	}
	n, _ := tn.Type().(*types.Named)
	return n
}

// ExtType resolves a named type of any loaded package (e.g. "go/ast", "File").
func (p *Prog) ExtType(path, name string) *types.Named {
	pk := p.ByP[path]
	if pk == nil || pk.Types == nil {
		return nil
	}
	tn, ok := pk.Types.Scope().Lookup(name).(*types.TypeName)
	if !ok {
		return nil
	}
	n, _ := tn.Type().(*types.Named)
	return n
}

// CG returns the VTA call graph (seeded by CHA), built on first use.
func (p *Prog) CG() *callgraph.Graph {
	if p.cgVTA == nil {
		p.cgVTA = vta.CallGraph(ssautil.AllFunctions(p.SSA), p.CHA())
	}
	return p.cgVTA
}

// CHA returns the class-hierarchy call graph.
func (p *Prog) CHA() *callgraph.Graph {
	if p.cgCHA == nil {
		p.cgCHA = cha.CallGraph(p.SSA)
	}
	return p.cgCHA
}

// ReachableVTA returns the module functions reachable from the roots in the
// VTA graph. Calls are followed through functions outside the module as well
// (a callback handed to the standard library is reached through the library
// function that calls it), but only module functions are reported.
func (p *Prog) ReachableVTA(roots ...*ssa.Function) map[*ssa.Function]bool {
	g := p.CG()
	seen := map[*ssa.Function]bool{}
	out := map[*ssa.Function]bool{}
	work := append([]*ssa.Function{}, roots...)
	for len(work) > 0 {
		f := work[len(work)-1]
		work = work[:len(work)-1]
		if f == nil || seen[f] {
			continue
		}
		seen[f] = true
		if InModule(f) && f.Blocks != nil {
			out[f] = true
		}
		if n := g.Nodes[f]; n != nil {
			for _, e := range n.Out {
				if !seen[e.Callee.Func] {
					work = append(work, e.Callee.Func)
				}
			}
		}
	}
	return out
}

// Pos formats a position relative to the analysed directory.
func (p *Prog) Pos(pos token.Pos) string {
	if !pos.IsValid() {
		return "-"
	}
	ps := p.SSA.Fset.Position(pos)
	f := strings.TrimPrefix(ps.Filename, p.Dir+"/")
	return fmt.Sprintf("%s:%d:%d", f, ps.Line, ps.Column)
}

// FuncPos is the position of a function, falling back to its parent's.
func (p *Prog) FuncPos(fn *ssa.Function) string {
	if fn == nil {
		return "-"
	}
	return p.Pos(fn.Pos())
}

// FuncName is a stable, human-readable name for a function: package-relative
// path, receiver and name; closures are suffixed with $n by go/ssa.
func FuncName(fn *ssa.Function) string {
	if fn == nil {
		return "<nil>"
	}
	s := fn.String()
	s = strings.ReplaceAll(s, Module+"/", "")
	s = strings.ReplaceAll(s, Module+".", "main.")
	return s
}

// SyntaxOf returns the *ast.FuncDecl or *ast.FuncLit of fn, if any.
func SyntaxOf(fn *ssa.Function) ast.Node { return fn.Syntax() }
