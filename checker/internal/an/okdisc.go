package an

import (
	"go/types"

	"golang.org/x/tools/go/ssa"
)

const dataPkg = Module + "/internal/data"

// VerdictIndex reports whether sig has the shape of a match verdict — results
// that include a data.Data and end in a bool — and returns the index of the
// bool. This is the role "sub-match" in type terms: every Matcher.Match, and
// the helpers matchPrefix / matchSections / ImportMatcher.Match / ... .
func VerdictIndex(sig *types.Signature) (int, bool) {
	res := sig.Results()
	n := res.Len()
	if n < 2 {
		return 0, false
	}
	b, ok := res.At(n - 1).Type().Underlying().(*types.Basic)
	if !ok || b.Kind() != types.Bool {
		return 0, false
	}
	for i := 0; i < n-1; i++ {
		if IsNamed(res.At(i).Type(), dataPkg, "Data") {
			return n - 1, true
		}
	}
	return 0, false
}

// VerdictCall is a call whose callee returns a match verdict.
type VerdictCall struct {
	Call    *ssa.Call
	Idx     int          // index of the bool in the result tuple
	Verdict *ssa.Extract // nil when the verdict is discarded
}

// VerdictCalls lists the verdict-returning calls in fn.
func VerdictCalls(fn *ssa.Function) []VerdictCall {
	var out []VerdictCall
	for _, c := range Calls(fn) {
		call, ok := c.(*ssa.Call)
		if !ok {
			continue
		}
		idx, ok := VerdictIndex(CallSig(c))
		if !ok {
			continue
		}
		vc := VerdictCall{Call: call, Idx: idx}
		if ex := ExtractOf(call, idx); len(ex) > 0 {
			vc.Verdict = ex[0]
		}
		out = append(out, vc)
	}
	return out
}

// OkDiscipline applies analysis A4 to fn, which must itself return a verdict.
// For each sub-match call c with verdict v: delete from the CFG the edges taken
// when v is true; every Return still reachable from c must return a verdict
// that cannot be true unless v was: the constant false, v itself, or a phi of
// those counting only phi edges whose predecessor is still reachable.
// It returns the number of sub-match call sites examined.
func OkDiscipline(r *Run, fn *ssa.Function) int {
	ridx, ok := VerdictIndex(fn.Signature)
	if !ok {
		return 0
	}
	n := 0
	for _, vc := range VerdictCalls(fn) {
		n++
		key := FuncName(fn) + "|" + CalleeName(vc.Call)
		if vc.Verdict == nil {
			// A tuple that is returned whole has no Extract at all.
			if returnsTuple(vc.Call) {
				r.Pass(key, vc.Call.Pos(), "verdict of the sub-match is returned unchanged")
				continue
			}
			r.Fail(key, vc.Call.Pos(), "the match verdict of %s is discarded", CalleeName(vc.Call))
			continue
		}
		v := ssa.Value(vc.Verdict)
		brs := BranchesOn(fn, v)
		skip := func(from *ssa.BasicBlock, succ int) bool {
			for _, br := range brs {
				if br.If.Block() == from && succ == br.EdgeWhen(true) {
					return true
				}
			}
			return false
		}
		reach := ReachFromSuccs(vc.Call.Block(), skip)
		reach[vc.Call.Block()] = true // the rest of the call's own block
		bad := false
		for _, ret := range Returns(fn) {
			if !reach[ret.Block()] {
				continue
			}
			// a Return in the call's own block before the call is impossible (Return terminates the block)
			rv := ret.Results[ridx]
			if !verdictImplied(rv, v, reach, map[ssa.Value]bool{}) {
				bad = true
				r.Fail(key, vc.Call.Pos(), "after %s fails (verdict false), %s can still reach the return at %s whose verdict %s may be true: a failed sub-match is ignored",
					CalleeName(vc.Call), FuncName(fn), r.P.Pos(ret.Pos()), rv.String())
			}
		}
		// the data produced by a failed sub-match must not be used, except as
		// the data of a false return: bindings made during a failed attempt
		// never influence another attempt.
		for _, ex := range dataResults(vc.Call) {
			if use := usedAfterFailure(ex, reach, skip, map[ssa.Value]bool{}); use != nil {
				bad = true
				r.Fail(key+"|failed-data", use.Pos(), "the data returned by a FAILED %s (bindings of the failed attempt) flows into %s in %s: a failed attempt influences a later one",
					CalleeName(vc.Call), use.String(), FuncName(fn))
			}
		}
		// the data a SUCCESSFUL sub-match hands back carries what it bound: unless the sub-match was given a
		// fresh, throw-away data (data.New(): a comparison that must not bind), its data result is taken and used
		fresh := false
		hasDataArg := false
		for _, a := range CallArgs(vc.Call) {
			if !IsNamed(a.Type(), dataPkg, "Data") {
				continue
			}
			hasDataArg = true
			if c, ok := a.(*ssa.Call); ok {
				if sc := c.Call.StaticCallee(); sc != nil && sc.Name() == "New" && sc.Pkg != nil && sc.Pkg.Pkg.Path() == dataPkg {
					fresh = true
				}
			}
		}
		if hasDataArg && !fresh && !returnsTuple(vc.Call) {
			used := false
			for _, ex := range dataResults(vc.Call) {
				if refs := ex.Referrers(); refs != nil {
					for _, u := range *refs {
						if _, isDbg := u.(*ssa.DebugRef); !isDbg {
							used = true
						}
					}
				}
			}
			if !used {
				bad = true
				r.Fail(key+"|bindings-dropped", vc.Call.Pos(), "the data returned by a successful %s is discarded in %s: what the sub-match bound (a metavariable, a recorded elision) is lost, later occurrences bind afresh", CalleeName(vc.Call), FuncName(fn))
			}
		}
		if !bad {
			r.Pass(key, vc.Call.Pos(), "every return reachable after a false verdict of %s returns false or that verdict (%d branch(es) on it)", CalleeName(vc.Call), len(brs))
		}
	}
	return n
}

func returnsTuple(c *ssa.Call) bool {
	refs := c.Referrers()
	if refs == nil {
		return false
	}
	for _, x := range *refs {
		if _, ok := x.(*ssa.Return); ok {
			return true
		}
	}
	return false
}

// verdictImplied: rv can only be true if v is true, given the set of blocks
// still reachable after v was false.
func verdictImplied(rv, v ssa.Value, reach map[*ssa.BasicBlock]bool, seen map[ssa.Value]bool) bool {
	if rv == v {
		return true
	}
	if b, ok := ConstBool(rv); ok {
		return !b
	}
	if seen[rv] {
		return true
	}
	seen[rv] = true
	if phi, ok := rv.(*ssa.Phi); ok {
		for i, e := range phi.Edges {
			pred := phi.Block().Preds[i]
			if !reach[pred] {
				continue
			}
			if !verdictImplied(e, v, reach, seen) {
				return false
			}
		}
		return true
	}
	return false
}

// dataResults returns the data.Data results extracted from a verdict call.
func dataResults(c *ssa.Call) []*ssa.Extract {
	var out []*ssa.Extract
	if refs := c.Referrers(); refs != nil {
		for _, x := range *refs {
			if e, ok := x.(*ssa.Extract); ok && IsNamed(e.Type(), dataPkg, "Data") {
				out = append(out, e)
			}
		}
	}
	return out
}

// usedAfterFailure returns an instruction, inside the region reachable after
// the sub-match failed, that consumes v other than by returning it.
func usedAfterFailure(v ssa.Value, reach map[*ssa.BasicBlock]bool, skip func(*ssa.BasicBlock, int) bool, seen map[ssa.Value]bool) ssa.Instruction {
	if seen[v] {
		return nil
	}
	seen[v] = true
	refs := v.Referrers()
	if refs == nil {
		return nil
	}
	for _, u := range *refs {
		switch x := u.(type) {
		case *ssa.DebugRef, *ssa.Return:
			continue
		case *ssa.Phi:
			for i, e := range x.Edges {
				if e != v {
					continue
				}
				pred := x.Block().Preds[i]
				if !reach[pred] {
					continue
				}
				taken := false
				for si, s := range pred.Succs {
					if s == x.Block() && !skip(pred, si) {
						taken = true
					}
				}
				if !taken {
					continue
				}
				if use := usedAfterFailure(x, reach, skip, seen); use != nil {
					return use
				}
			}
		case *ssa.Store:
			// a spill into a local cell (captured / address-taken variable) is
			// not a use; the loads of the cell inside the failure region are
			al, isLocal := x.Addr.(*ssa.Alloc)
			if x.Val != v || !isLocal {
				if reach[u.Block()] {
					return u
				}
				continue
			}
			if lrefs := al.Referrers(); lrefs != nil {
				for _, lu := range *lrefs {
					ld, isLoad := lu.(*ssa.UnOp)
					if !isLoad || !reach[ld.Block()] {
						continue
					}
					if ld.Block() == x.Block() && InstrBlockIndex(ld) < InstrBlockIndex(x) {
						continue
					}
					if use := usedAfterFailure(ld, reach, skip, seen); use != nil {
						return use
					}
				}
			}
		default:
			if reach[u.Block()] {
				return u
			}
		}
	}
	return nil
}
