package an

import (
	"go/token"
	"go/types"
	"sort"
	"strings"

	"golang.org/x/tools/go/ssa"
)

// Assume gives the value a boolean atom (negations stripped, phis resolved) has
// under the hypothesis of a query; known=false leaves the atom free.
type Assume func(v ssa.Value) (val, known bool)

// phiEnv records, for the boolean phis met on the way to a block, the operand
// that flowed in. It is part of the exploration state so that a condition held
// in a variable (`dry := opts.Diff || opts.Print; …; if dry {`) is evaluated as
// what it was on the way it was computed.
type phiEnv map[*ssa.Phi]ssa.Value

func (e phiEnv) key() string {
	if len(e) == 0 {
		return ""
	}
	parts := make([]string, 0, len(e))
	for p, v := range e {
		parts = append(parts, p.Name()+"="+v.Name())
	}
	sort.Strings(parts)
	return strings.Join(parts, ",")
}

func (e phiEnv) enter(pred, b *ssa.BasicBlock) phiEnv {
	idx := -1
	for i, p := range b.Preds {
		if p == pred {
			idx = i
		}
	}
	var out phiEnv
	for _, in := range b.Instrs {
		phi, ok := in.(*ssa.Phi)
		if !ok {
			break
		}
		if ShortType(phi.Type()) != "bool" || idx < 0 {
			continue
		}
		if out == nil {
			out = phiEnv{}
			for k, v := range e {
				out[k] = v
			}
		}
		v := phi.Edges[idx]
		// resolve through the incoming environment (parallel-copy semantics)
		for steps := 0; steps < 8; steps++ {
			inner, pos := StripNot(v)
			p2, isPhi := inner.(*ssa.Phi)
			if !isPhi || !pos {
				break
			}
			w, have := e[p2]
			if !have {
				break
			}
			v = w
		}
		out[phi] = v
	}
	if out == nil {
		return e
	}
	return out
}

// EvalUnder evaluates a boolean SSA value under env and the hypothesis.
func EvalUnder(v ssa.Value, env phiEnv, assume Assume, depth int) (val, known bool) {
	pos := true
	for steps := 0; steps < 16; steps++ {
		inner, p := StripNot(v)
		if !p {
			pos = !pos
		}
		v = inner
		if k, isc := ConstBool(v); isc {
			return k == pos, true
		}
		if phi, ok := v.(*ssa.Phi); ok {
			if w, have := env[phi]; have {
				v = w
				continue
			}
			// a phi all of whose operands evaluate to the same value
			all, first := true, true
			var agreed bool
			if depth < 3 {
				for _, e := range phi.Edges {
					if e == ssa.Value(phi) {
						continue
					}
					x, ok := EvalUnder(e, env, assume, depth+1)
					if !ok {
						all = false
						break
					}
					if first {
						agreed, first = x, false
					} else if x != agreed {
						all = false
						break
					}
				}
				if all && !first {
					return agreed == pos, true
				}
			}
			return false, false
		}
		break
	}
	if assume != nil {
		if x, ok := assume(v); ok {
			return x == pos, true
		}
	}
	// comparison of two integers that are both constants under the hypothesis (a mode computed once by a
	// pure function of the options and switched on later)
	if cmp, ok := v.(*ssa.BinOp); ok && (cmp.Op == token.EQL || cmp.Op == token.NEQ) && depth < 3 {
		if xs, okx := valuesUnder(cmp.X, assume, depth); okx {
			if ys, oky := valuesUnder(cmp.Y, assume, depth); oky {
				if len(xs) == 1 && len(ys) == 1 && xs[0] == ys[0] {
					return (cmp.Op == token.EQL) == pos, true
				}
				disjoint := true
				for _, a := range xs {
					for _, b := range ys {
						if a == b {
							disjoint = false
						}
					}
				}
				if disjoint {
					return (cmp.Op == token.NEQ) == pos, true
				}
			}
		}
	}
	// a call to a module predicate: evaluate its result under the same hypothesis
	if c, ok := v.(*ssa.Call); ok && depth < 3 {
		if g := c.Call.StaticCallee(); g != nil && g.Blocks != nil && g.Signature.Results().Len() == 1 && ShortType(g.Signature.Results().At(0).Type()) == "bool" {
			if x, ok := ResultUnder(g, assume, depth+1); ok {
				return x == pos, true
			}
		}
	}
	return false, false
}

// ResultUnder evaluates the single boolean result of g under the hypothesis:
// known only when every return reachable under it yields the same known value.
func ResultUnder(g *ssa.Function, assume Assume, depth int) (val, known bool) {
	first := true
	ok := true
	ExploreUnder(g.Blocks[0], assume, nil, depth, func(b *ssa.BasicBlock, env phiEnv) {
		ret, isRet := b.Instrs[len(b.Instrs)-1].(*ssa.Return)
		if !isRet || len(ret.Results) != 1 {
			return
		}
		x, k := EvalUnder(ret.Results[0], env, assume, depth)
		if !k {
			ok = false
			return
		}
		if first {
			val, first = x, false
		} else if x != val {
			ok = false
		}
	})
	if first || !ok {
		return false, false
	}
	return val, true
}

// ExploreUnder visits the (block, phi environment) states reachable from start
// under the hypothesis, never taking an edge for which stop returns true and
// never the arm of a branch the hypothesis decides the other way.
func ExploreUnder(start *ssa.BasicBlock, assume Assume, stop func(b *ssa.BasicBlock, succ int) bool, depth int, visit func(b *ssa.BasicBlock, env phiEnv)) {
	type state struct {
		b   *ssa.BasicBlock
		env phiEnv
	}
	seen := map[string]bool{}
	work := []state{{start, phiEnv{}}}
	mark := func(s state) bool {
		k := s.b.String() + "|" + s.env.key()
		if seen[k] {
			return false
		}
		seen[k] = true
		return true
	}
	mark(work[0])
	for len(work) > 0 {
		s := work[len(work)-1]
		work = work[:len(work)-1]
		if visit != nil {
			visit(s.b, s.env)
		}
		taken := -1
		if len(s.b.Succs) == 2 {
			if iff, ok := s.b.Instrs[len(s.b.Instrs)-1].(*ssa.If); ok {
				if x, known := EvalUnder(iff.Cond, s.env, assume, depth); known {
					if x {
						taken = 0
					} else {
						taken = 1
					}
				}
			}
		}
		for i, nx := range s.b.Succs {
			if taken >= 0 && i != taken {
				continue
			}
			if stop != nil && stop(s.b, i) {
				continue
			}
			ns := state{nx, s.env.enter(s.b, nx)}
			if len(seen) > 200000 {
				// give up precision, never soundness: fall back to plain reachability
				ns.env = phiEnv{}
			}
			if mark(ns) {
				work = append(work, ns)
			}
		}
	}
}

// ReachUnder returns the blocks reachable from start (inclusive) under the
// hypothesis. It over-approximates: atoms the hypothesis does not decide are
// free, so "not in the result" is a sound unreachability verdict.
func ReachUnder(start *ssa.BasicBlock, assume Assume, stop func(b *ssa.BasicBlock, succ int) bool) map[*ssa.BasicBlock]bool {
	out := map[*ssa.BasicBlock]bool{}
	ExploreUnder(start, assume, stop, 0, func(b *ssa.BasicBlock, _ phiEnv) { out[b] = true })
	return out
}

// DecidedBranches counts the If instructions of f whose condition the
// hypothesis decides (on some way of reaching them).
func DecidedBranches(f *ssa.Function, assume Assume) int {
	set := map[*ssa.BasicBlock]bool{}
	ExploreUnder(f.Blocks[0], nil, nil, 0, func(b *ssa.BasicBlock, env phiEnv) {
		if len(b.Succs) != 2 {
			return
		}
		if iff, ok := b.Instrs[len(b.Instrs)-1].(*ssa.If); ok {
			if _, k := EvalUnder(iff.Cond, env, nil, 0); k {
				return // constant
			}
			if _, k := EvalUnder(iff.Cond, env, assume, 0); k {
				set[b] = true
			}
		}
	})
	return len(set)
}

// IsPurePredicate reports whether g is a module function with a single boolean
// result that has no effect: no store (except into its own locals), no map
// update, no send/go/defer, and no call except to builtins and other pure
// predicates.
func IsPurePredicate(g *ssa.Function, depth int) bool {
	if g == nil || g.Blocks == nil || depth > 3 {
		return false
	}
	res := g.Signature.Results()
	if res.Len() != 1 || ShortType(res.At(0).Type()) != "bool" {
		return false
	}
	for _, b := range g.Blocks {
		for _, in := range b.Instrs {
			switch x := in.(type) {
			case *ssa.Store:
				if _, local := Root(x.Addr).(*ssa.Alloc); !local {
					return false
				}
			case *ssa.MapUpdate, *ssa.Send, *ssa.Go, *ssa.Defer, *ssa.RunDefers, *ssa.Select:
				return false
			case *ssa.Call:
				if _, isBuiltin := x.Call.Value.(*ssa.Builtin); isBuiltin {
					continue
				}
				if !IsPurePredicate(x.Call.StaticCallee(), depth+1) {
					return false
				}
			}
		}
	}
	return true
}

// valuesUnder evaluates an integer value to the finite set of constants it can
// be under the hypothesis: a constant, or the result of a pure module function
// every return of which, reachable under the hypothesis, is such a value.
func valuesUnder(v ssa.Value, assume Assume, depth int) ([]int64, bool) {
	if k, ok := ConstInt(v); ok {
		return []int64{k}, true
	}
	switch x := v.(type) {
	case *ssa.Convert:
		return valuesUnder(x.X, assume, depth)
	case *ssa.ChangeType:
		return valuesUnder(x.X, assume, depth)
	case *ssa.Call:
		g := x.Call.StaticCallee()
		if g == nil || g.Blocks == nil || depth >= 3 || !InModule(g) {
			return nil, false
		}
		res := g.Signature.Results()
		if res.Len() != 1 {
			return nil, false
		}
		if b, ok := res.At(0).Type().Underlying().(*types.Basic); !ok || b.Info()&types.IsInteger == 0 {
			return nil, false
		}
		if !isPureFunc(g, 0) {
			return nil, false
		}
		okAll := true
		set := map[int64]bool{}
		ExploreUnder(g.Blocks[0], assume, nil, depth+1, func(b *ssa.BasicBlock, env phiEnv) {
			ret, isRet := b.Instrs[len(b.Instrs)-1].(*ssa.Return)
			if !isRet || len(ret.Results) != 1 {
				return
			}
			ks, ok := valuesUnder(ret.Results[0], assume, depth+1)
			if !ok {
				okAll = false
				return
			}
			for _, k := range ks {
				set[k] = true
			}
		})
		if !okAll || len(set) == 0 || len(set) > 16 {
			return nil, false
		}
		var out []int64
		for k := range set {
			out = append(out, k)
		}
		return out, true
	}
	return nil, false
}

// isPureFunc: g has no effect (no store except into its own locals, no map
// update, no send/go/defer, only calls to builtins and other pure functions).
func isPureFunc(g *ssa.Function, depth int) bool {
	if g == nil || g.Blocks == nil || depth > 3 {
		return false
	}
	for _, b := range g.Blocks {
		for _, in := range b.Instrs {
			switch x := in.(type) {
			case *ssa.Store:
				if _, local := Root(x.Addr).(*ssa.Alloc); !local {
					return false
				}
			case *ssa.MapUpdate, *ssa.Send, *ssa.Go, *ssa.Defer, *ssa.RunDefers, *ssa.Select:
				return false
			case *ssa.Call:
				if _, isBuiltin := x.Call.Value.(*ssa.Builtin); isBuiltin {
					continue
				}
				if !isPureFunc(x.Call.StaticCallee(), depth+1) {
					return false
				}
			}
		}
	}
	return true
}
