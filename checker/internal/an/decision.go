package an

import (
	"fmt"
	"sort"
	"strings"

	"golang.org/x/tools/go/ssa"
)

// DPath is one acyclic path through a predicate-like function (analysis A9).
type DPath struct {
	Atoms  map[string]bool // atom name -> value assumed on this path
	Blocks []*ssa.BasicBlock
	End    *ssa.BasicBlock // the Return / stop block the path ends in
}

// EnumeratePaths enumerates the acyclic paths from the entry of f to a Return
// (or to a block for which stop returns true). classify names the atom tested
// by a branch condition (after negations are stripped) — returning "" makes the
// enumeration fail: an unrecognised atom leaves the rule undecided. An atom
// already fixed on the path is not branched on twice.
func EnumeratePaths(f *ssa.Function, classify func(cond ssa.Value) string, stop func(*ssa.BasicBlock) bool, max int) ([]DPath, error) {
	return EnumeratePathsFrom(f.Blocks[0], classify, stop, max, false)
}

// EnumeratePathsFrom is EnumeratePaths started at an arbitrary block. Branch
// conditions are resolved through phis along the path first (so a boolean that
// was materialised into a variable is seen as what it is on that path), and
// constant conditions are followed deterministically. With free set, a
// condition classify does not know becomes a free atom named after its text
// instead of an error.
func EnumeratePathsFrom(start *ssa.BasicBlock, classify func(cond ssa.Value) string, stop func(*ssa.BasicBlock) bool, max int, free bool) ([]DPath, error) {
	var out []DPath
	var walk func(b *ssa.BasicBlock, atoms map[string]bool, blocks []*ssa.BasicBlock) error
	walk = func(b *ssa.BasicBlock, atoms map[string]bool, blocks []*ssa.BasicBlock) error {
		stopped := false
		if len(blocks) > 0 && stop != nil && stop(b) {
			stopped = true // a stop block ends the path even when it is the block the walk started from
		}
		if !stopped {
			for _, x := range blocks {
				if x == b {
					return fmt.Errorf("cycle through block %d: not a decision function", b.Index)
				}
			}
		}
		first := len(blocks) == 0
		blocks = append(append([]*ssa.BasicBlock{}, blocks...), b)
		if len(out) > max {
			return fmt.Errorf("more than %d paths", max)
		}
		if stopped || (first && stop != nil && stop(b)) || len(b.Succs) == 0 {
			cp := map[string]bool{}
			for k, v := range atoms {
				cp[k] = v
			}
			out = append(out, DPath{Atoms: cp, Blocks: blocks, End: b})
			return nil
		}
		if len(b.Succs) == 1 {
			return walk(b.Succs[0], atoms, blocks)
		}
		iff, ok := b.Instrs[len(b.Instrs)-1].(*ssa.If)
		if !ok {
			return fmt.Errorf("block %d has %d successors but no If", b.Index, len(b.Succs))
		}
		cond := DPath{Blocks: blocks}.ResolveOnPath(iff.Cond)
		inner, pos := StripNot(cond)
		inner = DPath{Blocks: blocks}.ResolveOnPath(inner)
		inner2, pos2 := StripNot(inner)
		if !pos2 {
			pos = !pos
		}
		inner = inner2
		if k, isc := ConstBool(inner); isc {
			succ := 1
			if k == pos {
				succ = 0
			}
			return walk(b.Succs[succ], atoms, blocks)
		}
		name := classify(inner)
		if name == "" && free {
			name = "free:" + inner.Name() + ":" + inner.String()
		}
		if name == "" {
			return fmt.Errorf("unrecognised branch condition %s at block %d", inner.String(), b.Index)
		}
		for _, val := range []bool{true, false} {
			if fixed, seen := atoms[name]; seen && fixed != val {
				continue
			}
			next := map[string]bool{}
			for k, v := range atoms {
				next[k] = v
			}
			next[name] = val
			succ := 1
			if val == pos {
				succ = 0
			}
			if err := walk(b.Succs[succ], next, blocks); err != nil {
				return err
			}
		}
		return nil
	}
	if err := walk(start, map[string]bool{}, nil); err != nil {
		return nil, err
	}
	return out, nil
}

// ResolveOnPath resolves phis in v according to the predecessor actually taken
// on the path.
func (p DPath) ResolveOnPath(v ssa.Value) ssa.Value {
	for steps := 0; steps < 16; steps++ {
		phi, ok := v.(*ssa.Phi)
		if !ok {
			return v
		}
		idx := -1
		for i, b := range p.Blocks {
			if b == phi.Block() {
				idx = i
			}
		}
		if idx <= 0 {
			return v
		}
		pred := p.Blocks[idx-1]
		found := false
		for i, pb := range phi.Block().Preds {
			if pb == pred {
				v = phi.Edges[i]
				found = true
				break
			}
		}
		if !found {
			return v
		}
	}
	return v
}

// FullTable expands the paths into a table over all assignments of the atoms
// (sorted atom names): assignment string "a=T,b=F" -> outcome.
func FullTable(paths []DPath, outcome func(DPath) string) (atoms []string, table map[string]string) {
	set := map[string]bool{}
	for _, p := range paths {
		for a := range p.Atoms {
			set[a] = true
		}
	}
	for a := range set {
		atoms = append(atoms, a)
	}
	sort.Strings(atoms)
	table = map[string]string{}
	n := len(atoms)
	for mask := 0; mask < 1<<n; mask++ {
		asg := map[string]bool{}
		var parts []string
		for i, a := range atoms {
			v := mask&(1<<i) != 0
			asg[a] = v
			if v {
				parts = append(parts, a+"=T")
			} else {
				parts = append(parts, a+"=F")
			}
		}
		key := strings.Join(parts, ",")
		for _, p := range paths {
			ok := true
			for a, v := range p.Atoms {
				if asg[a] != v {
					ok = false
				}
			}
			if ok {
				o := outcome(p)
				if prev, dup := table[key]; dup && prev != o {
					table[key] = prev + "|" + o
				} else {
					table[key] = o
				}
			}
		}
	}
	return atoms, table
}
