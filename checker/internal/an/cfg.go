package an

import (
	"sort"

	"golang.org/x/tools/go/ssa"
)

// PostDom holds immediate post-dominators of a function's blocks with respect
// to a virtual exit that every block without successors leads to. Blocks that
// cannot reach the exit (infinite loops) have ipdom -1 and post-dominate
// nothing but themselves.
type PostDom struct {
	fn    *ssa.Function
	ipdom []int // block index -> immediate post-dominator index, n = virtual exit, -1 = none
	depth []int
}

// PostDom computes (and caches) the post-dominator tree of fn.
func (p *Prog) PostDom(fn *ssa.Function) *PostDom {
	if pd, ok := p.pdom[fn]; ok {
		return pd
	}
	n := len(fn.Blocks)
	exit := n
	// reverse graph: preds in reverse graph = succs in the CFG
	// order: reverse post-order of the reverse graph from exit.
	rsuccs := make([][]int, n+1) // edges of reverse graph: exit -> exits, b -> preds(b)
	for _, b := range fn.Blocks {
		if len(b.Succs) == 0 {
			rsuccs[exit] = append(rsuccs[exit], b.Index)
		}
		for _, s := range b.Succs {
			rsuccs[s.Index] = append(rsuccs[s.Index], b.Index)
		}
	}
	order := []int{}
	seen := make([]bool, n+1)
	var dfs func(int)
	dfs = func(u int) {
		seen[u] = true
		for _, v := range rsuccs[u] {
			if !seen[v] {
				dfs(v)
			}
		}
		order = append(order, u)
	}
	dfs(exit)
	// order is post-order; number nodes
	rpo := make([]int, n+1)
	for i := range rpo {
		rpo[i] = -1
	}
	for i, u := range order {
		rpo[u] = len(order) - 1 - i
	}
	idom := make([]int, n+1)
	for i := range idom {
		idom[i] = -1
	}
	idom[exit] = exit
	intersect := func(a, b int) int {
		for a != b {
			for rpo[a] > rpo[b] {
				a = idom[a]
			}
			for rpo[b] > rpo[a] {
				b = idom[b]
			}
		}
		return a
	}
	rpreds := func(u int) []int { // predecessors in the reverse graph = CFG successors (+exit)
		if u == exit {
			return nil
		}
		b := fn.Blocks[u]
		var out []int
		if len(b.Succs) == 0 {
			out = append(out, exit)
		}
		for _, s := range b.Succs {
			out = append(out, s.Index)
		}
		return out
	}
	changed := true
	for changed {
		changed = false
		for i := len(order) - 1; i >= 0; i-- {
			u := order[i]
			if u == exit {
				continue
			}
			newIdom := -1
			for _, q := range rpreds(u) {
				if rpo[q] < 0 || idom[q] < 0 {
					continue
				}
				if newIdom < 0 {
					newIdom = q
				} else {
					newIdom = intersect(q, newIdom)
				}
			}
			if newIdom >= 0 && idom[u] != newIdom {
				idom[u] = newIdom
				changed = true
			}
		}
	}
	pd := &PostDom{fn: fn, ipdom: idom[:n+1], depth: make([]int, n+1)}
	for u := 0; u <= n; u++ {
		d := 0
		for v := u; v != exit && v >= 0 && idom[v] >= 0 && d <= n+1; v = idom[v] {
			d++
		}
		pd.depth[u] = d
	}
	p.pdom[fn] = pd
	return pd
}

// PostDominates reports whether block a post-dominates block b (reflexive).
func (pd *PostDom) PostDominates(a, b *ssa.BasicBlock) bool {
	exit := len(pd.fn.Blocks)
	for v, steps := b.Index, 0; v >= 0 && steps <= exit+1; steps++ {
		if v == a.Index {
			return true
		}
		if v == exit {
			return false
		}
		v = pd.ipdom[v]
	}
	return false
}

// CtrlEdge is a CFG edge out of a conditional block.
type CtrlEdge struct {
	Block *ssa.BasicBlock
	Succ  int // index into Block.Succs (0 = true edge of an If)
}

// CtrlDeps maps a block to the edges it is directly control dependent on.
type CtrlDeps map[*ssa.BasicBlock][]CtrlEdge

// CtrlDeps computes direct control dependences (Ferrante et al.): block X is
// control dependent on edge A->B iff X post-dominates B and X does not strictly
// post-dominate A.
func (p *Prog) CtrlDeps(fn *ssa.Function) CtrlDeps {
	if cd, ok := p.cdep[fn]; ok {
		return cd
	}
	pd := p.PostDom(fn)
	exit := len(fn.Blocks)
	cd := CtrlDeps{}
	for _, a := range fn.Blocks {
		if len(a.Succs) < 2 {
			continue
		}
		stop := pd.ipdom[a.Index]
		for si, b := range a.Succs {
			for v, steps := b.Index, 0; v >= 0 && v != exit && v != stop && steps <= exit+1; steps++ {
				cd[fn.Blocks[v]] = append(cd[fn.Blocks[v]], CtrlEdge{a, si})
				v = pd.ipdom[v]
			}
		}
	}
	p.cdep[fn] = cd
	return cd
}

// AllCtrlDeps returns the transitive closure of control dependences of b.
func (p *Prog) AllCtrlDeps(b *ssa.BasicBlock) []CtrlEdge {
	cd := p.CtrlDeps(b.Parent())
	seen := map[CtrlEdge]bool{}
	var out []CtrlEdge
	var visit func(*ssa.BasicBlock)
	visit = func(x *ssa.BasicBlock) {
		for _, e := range cd[x] {
			if !seen[e] {
				seen[e] = true
				out = append(out, e)
				visit(e.Block)
			}
		}
	}
	visit(b)
	return out
}

// Reach returns the blocks reachable from the given start blocks (inclusive)
// without taking an edge for which skip returns true.
func Reach(starts []*ssa.BasicBlock, skip func(from *ssa.BasicBlock, succ int) bool) map[*ssa.BasicBlock]bool {
	seen := map[*ssa.BasicBlock]bool{}
	var work []*ssa.BasicBlock
	for _, s := range starts {
		if !seen[s] {
			seen[s] = true
			work = append(work, s)
		}
	}
	for len(work) > 0 {
		b := work[len(work)-1]
		work = work[:len(work)-1]
		for i, s := range b.Succs {
			if skip != nil && skip(b, i) {
				continue
			}
			if !seen[s] {
				seen[s] = true
				work = append(work, s)
			}
		}
	}
	return seen
}

// ReachFromSuccs is Reach started at the successors of b (b itself is included
// only if a cycle leads back to it).
func ReachFromSuccs(b *ssa.BasicBlock, skip func(from *ssa.BasicBlock, succ int) bool) map[*ssa.BasicBlock]bool {
	var starts []*ssa.BasicBlock
	for i, s := range b.Succs {
		if skip != nil && skip(b, i) {
			continue
		}
		starts = append(starts, s)
	}
	return Reach(starts, skip)
}

// Loop is a natural loop.
type Loop struct {
	Header *ssa.BasicBlock
	Blocks map[*ssa.BasicBlock]bool
	Latch  []*ssa.BasicBlock // sources of back edges
}

// Loops returns the natural loops of fn (back edges t->h where h dominates t),
// loops sharing a header merged, sorted by header index.
func Loops(fn *ssa.Function) []*Loop {
	by := map[*ssa.BasicBlock]*Loop{}
	for _, t := range fn.Blocks {
		for _, h := range t.Succs {
			if h.Dominates(t) {
				l := by[h]
				if l == nil {
					l = &Loop{Header: h, Blocks: map[*ssa.BasicBlock]bool{h: true}}
					by[h] = l
				}
				l.Latch = append(l.Latch, t)
				// collect body: nodes that can reach t without passing h
				work := []*ssa.BasicBlock{t}
				for len(work) > 0 {
					x := work[len(work)-1]
					work = work[:len(work)-1]
					if l.Blocks[x] {
						continue
					}
					l.Blocks[x] = true
					work = append(work, x.Preds...)
				}
			}
		}
	}
	var out []*Loop
	for _, l := range by {
		out = append(out, l)
	}
	sort.Slice(out, func(i, j int) bool { return out[i].Header.Index < out[j].Header.Index })
	return out
}

// InstrBlockIndex returns the index of instr in its block, or -1.
func InstrBlockIndex(instr ssa.Instruction) int {
	for i, x := range instr.Block().Instrs {
		if x == instr {
			return i
		}
	}
	return -1
}

// InstrDominates reports whether a is executed before b on every path to b.
func InstrDominates(a, b ssa.Instruction) bool {
	if a.Block() == b.Block() {
		return InstrBlockIndex(a) < InstrBlockIndex(b)
	}
	return a.Block().Dominates(b.Block())
}

// BranchOn describes an If instruction whose condition is v or !v (through any
// number of negations): Pos==true means the true edge is taken when v is true.
type BranchOn struct {
	If  *ssa.If
	Pos bool
}

// StripNot peels boolean negations, returning the inner value and whether the
// number of negations is even.
func StripNot(v ssa.Value) (ssa.Value, bool) {
	pos := true
	for {
		if u, ok := v.(*ssa.UnOp); ok && u.Op.String() == "!" {
			v = u.X
			pos = !pos
			continue
		}
		// b == true, b != false, b == false, b != true
		if b, ok := v.(*ssa.BinOp); ok && (b.Op.String() == "==" || b.Op.String() == "!=") {
			var other ssa.Value
			var k, isc bool
			if k, isc = ConstBool(b.Y); isc {
				other = b.X
			} else if k, isc = ConstBool(b.X); isc {
				other = b.Y
			}
			if isc {
				same := (b.Op.String() == "==") == k
				v = other
				if !same {
					pos = !pos
				}
				continue
			}
		}
		return v, pos
	}
}

// BranchesOn finds every If in fn whose condition is v up to negation.
func BranchesOn(fn *ssa.Function, v ssa.Value) []BranchOn {
	var out []BranchOn
	for _, b := range fn.Blocks {
		if len(b.Instrs) == 0 {
			continue
		}
		if iff, ok := b.Instrs[len(b.Instrs)-1].(*ssa.If); ok {
			inner, pos := StripNot(iff.Cond)
			if inner == v {
				out = append(out, BranchOn{iff, pos})
			}
		}
	}
	return out
}

// EdgeWhen returns the successor index of the edge taken out of br.If when the
// underlying value is val.
func (br BranchOn) EdgeWhen(val bool) int {
	if val == br.Pos {
		return 0
	}
	return 1
}

// Returns lists the Return instructions of fn.
func Returns(fn *ssa.Function) []*ssa.Return {
	var out []*ssa.Return
	for _, b := range fn.Blocks {
		for _, in := range b.Instrs {
			if r, ok := in.(*ssa.Return); ok {
				out = append(out, r)
			}
		}
	}
	return out
}
