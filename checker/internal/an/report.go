package an

import (
	"encoding/json"
	"fmt"
	"go/token"
	"os"
	"path/filepath"
	"sort"
	"strings"
	"time"
)

// Verdict of one obligation.
type Verdict string

const (
	Pass      Verdict = "pass"
	Fail      Verdict = "fail"      // the rule is violated at this construct
	Undecided Verdict = "undecided" // the rule could not be decided (unresolved anchor, unknown idiom): fails the check
	Info      Verdict = "info"      // advisory, never affects the exit status
)

// Obligation is one rule instance evaluated at one construct.
type Obligation struct {
	Property string  `json:"property"`
	Rule     string  `json:"rule"`
	Key      string  `json:"key"` // rule + function + resolved callee / field / constant: never a line number
	Pos      string  `json:"pos"`
	Verdict  Verdict `json:"verdict"`
	Reason   string  `json:"reason"`
}

// Run collects the obligations of one property check.
type Run struct {
	P        *Prog
	Property string
	Tier     string
	Obls     []Obligation
	rule     string
	Counts   map[string]int // named instance counts (for minimum-count bookkeeping)
	Analysed map[string]bool
	Notes    []string
	Extra    map[string]any
}

// NewRun starts a property run.
func NewRun(p *Prog, property, tier string) *Run {
	return &Run{P: p, Property: property, Tier: tier, Counts: map[string]int{}, Analysed: map[string]bool{}, Extra: map[string]any{}}
}

// Rule sets the current rule id (e.g. "R3-ok-discipline").
func (r *Run) Rule(id string) { r.rule = id }

func (r *Run) add(v Verdict, key string, pos token.Pos, format string, args ...any) {
	r.Obls = append(r.Obls, Obligation{
		Property: r.Property, Rule: r.rule, Key: r.rule + "|" + key,
		Pos: r.P.Pos(pos), Verdict: v, Reason: fmt.Sprintf(format, args...),
	})
}

// Pass records a discharged obligation.
func (r *Run) Pass(key string, pos token.Pos, format string, args ...any) {
	r.add(Pass, key, pos, format, args...)
}

// Fail records a violated obligation.
func (r *Run) Fail(key string, pos token.Pos, format string, args ...any) {
	r.add(Fail, key, pos, format, args...)
}

// Undecided records an obligation the analysis could not decide.
func (r *Run) Undecided(key string, pos token.Pos, format string, args ...any) {
	r.add(Undecided, key, pos, format, args...)
}

// Info records an advisory observation.
func (r *Run) Info(key string, pos token.Pos, format string, args ...any) {
	r.add(Info, key, pos, format, args...)
}

// Check is Pass when cond holds, Fail otherwise.
func (r *Run) Check(cond bool, key string, pos token.Pos, format string, args ...any) bool {
	if cond {
		r.add(Pass, key, pos, format, args...)
	} else {
		r.add(Fail, key, pos, format, args...)
	}
	return cond
}

// Count adds n to a named instance counter.
func (r *Run) Count(name string, n int) { r.Counts[name] += n }

// Min fails the current rule when a named instance count is below the number
// confirmed by hand: a rule that matches nothing never passes vacuously.
func (r *Run) Min(name string, min int) {
	got := r.Counts[name]
	if got < min {
		r.add(Undecided, "min-count:"+name, token.NoPos, "matched %d instance(s) of %q, expected at least %d: the code this rule inspects has moved or been renamed; the rule decides nothing", got, name, min)
	} else {
		r.add(Pass, "min-count:"+name, token.NoPos, "matched %d instance(s) of %q (minimum %d)", got, name, min)
	}
}

// Failing returns the obligations that are violated or undecided.
func (r *Run) Failing() []Obligation {
	out := []Obligation{}
	for _, o := range r.Obls {
		if o.Verdict == Fail || o.Verdict == Undecided {
			out = append(out, o)
		}
	}
	return out
}

// Saw records a function / construct as analysed (for evidence).
func (r *Run) Saw(what string) { r.Analysed[what] = true }

// Finding is an entry of known_findings.json.
type Finding struct {
	Property   string `json:"property"`
	Rule       string `json:"rule"`
	Key        string `json:"key,omitempty"`
	Status     string `json:"status"` // known | fixed
	Commit     string `json:"commit,omitempty"`
	WhatFailed string `json:"what_failed"`
	Line       string `json:"line,omitempty"`
}

type findingsFile struct {
	Description string    `json:"description"`
	Findings    []Finding `json:"findings"`
}

// LoadFindings reads known_findings.json (never written at run time).
func LoadFindings(path string) ([]Finding, error) {
	b, err := os.ReadFile(path)
	if err != nil {
		if os.IsNotExist(err) {
			return nil, nil
		}
		return nil, err
	}
	var f findingsFile
	if err := json.Unmarshal(b, &f); err != nil {
		return nil, err
	}
	return f.Findings, nil
}

// Evidence is /verif/evidence/<id>.json.
type Evidence struct {
	PropertyID  string         `json:"property_id"`
	Tier        string         `json:"tier"`
	Seed        int            `json:"seed"`
	Level       string         `json:"level"`
	Coverage    map[string]any `json:"coverage"`
	Assumptions []string       `json:"assumptions"`
	WallS       float64        `json:"wall_s"`
	Violations  int            `json:"violations"`
}

// Finish writes evidence and replay files, prints VIOLATION / KNOWN-FINDING
// lines and returns the process exit code.
func (r *Run) Finish(verifDir string, start time.Time, seed int, explanation string, trusted, assumptions []string) int {
	findings, ferr := LoadFindings(filepath.Join(verifDir, "known_findings.json"))
	if ferr != nil {
		fmt.Printf("ERROR cannot read known_findings.json: %v\n", ferr)
		return 2
	}
	known := map[string]Finding{}
	for _, f := range findings {
		if f.Status == "known" && f.Property == r.Property {
			known[f.Key] = f
		}
	}
	sort.SliceStable(r.Obls, func(i, j int) bool {
		if r.Obls[i].Rule != r.Obls[j].Rule {
			return r.Obls[i].Rule < r.Obls[j].Rule
		}
		return r.Obls[i].Key < r.Obls[j].Key
	})
	replayDir := filepath.Join(verifDir, "evidence", "replay")
	os.MkdirAll(replayDir, 0o755)
	// remove stale replay files of this property
	if old, _ := filepath.Glob(filepath.Join(replayDir, r.Property+"-*.json")); old != nil {
		for _, f := range old {
			os.Remove(f)
		}
	}
	var nObl, nPass, nFail, nUndec, nKnown int
	rules := map[string][2]int{}
	distinct := map[string]bool{}
	var viol []string
	n := 0
	for _, o := range r.Obls {
		if o.Verdict == Info {
			continue
		}
		nObl++
		distinct[o.Key] = true
		rc := rules[o.Rule]
		rc[0]++
		switch o.Verdict {
		case Pass:
			nPass++
			rc[1]++
		case Fail, Undecided:
			if kf, ok := known[o.Key]; ok && o.Verdict == Fail {
				nKnown++
				fmt.Printf("KNOWN-FINDING: property=%s %s (%s at %s)\n", r.Property, kf.WhatFailed, o.Key, o.Pos)
				rc[1]++
				break
			}
			if o.Verdict == Fail {
				nFail++
			} else {
				nUndec++
			}
			n++
			path := filepath.Join(replayDir, fmt.Sprintf("%s-%s-%d.json", r.Property, sanitize(o.Rule), n))
			b, _ := json.MarshalIndent(map[string]any{
				"property": r.Property, "obligation": o,
				"how_to_replay": "gpcheck -repo /repo -property " + r.Property + " -tier quick re-evaluates this obligation on the current tree; gpcheck -explain " + path + " prints it and the current verdict",
			}, "", " ")
			os.WriteFile(path, b, 0o644)
			viol = append(viol, fmt.Sprintf("VIOLATION property=%s replay=%s", r.Property, path))
			fmt.Printf("  %s %s [%s] %s: %s\n", strings.ToUpper(string(o.Verdict)), o.Pos, o.Rule, o.Key, o.Reason)
		}
		rules[o.Rule] = rc
	}
	// evidence
	var samples []any
	perRule := map[string]int{}
	for _, o := range r.Obls {
		if perRule[o.Rule] < 2 || o.Verdict == Fail || o.Verdict == Undecided {
			if len(samples) < 60 {
				samples = append(samples, o)
			}
			perRule[o.Rule]++
		}
	}
	ruleSummary := map[string]string{}
	for k, v := range rules {
		ruleSummary[k] = fmt.Sprintf("%d/%d discharged", v[1], v[0])
	}
	analysed := make([]string, 0, len(r.Analysed))
	for k := range r.Analysed {
		analysed = append(analysed, k)
	}
	sort.Strings(analysed)
	cov := map[string]any{
		"explanation":         explanation,
		"obligations":         nObl,
		"discharged":          nPass + nKnown,
		"evaluations":         nObl,
		"distinct_nontrivial": len(distinct),
		"rule":                "one obligation per (rule, construct) pair found by the analyser in /repo's current source; distinct = distinct construct keys (rule|function|callee/field/constant), non-trivial = the rule matched a real construct (min-count obligations guarantee each rule matched at least the hand-confirmed number of sites)",
		"samples":             samples,
		"rules":               ruleSummary,
		"instance_counts":     r.Counts,
		"analysed":            analysed,
		"packages_loaded":     len(r.P.Pkgs),
		"module_functions":    r.P.NFuncs,
		"checker_cmd":         "bin/gpcheck -repo " + r.P.Dir + " -property " + r.Property + " -tier " + r.Tier,
		"trusted_base":        trusted,
		"known_findings":      nKnown,
		"undecided":           nUndec,
		"exhaustive":          false,
		"notes":               r.Notes,
	}
	for k, v := range r.Extra {
		cov[k] = v
	}
	ev := Evidence{PropertyID: r.Property, Tier: r.Tier, Seed: seed, Level: "other", Coverage: cov,
		Assumptions: assumptions, WallS: time.Since(start).Seconds(), Violations: nFail + nUndec}
	b, _ := json.MarshalIndent(ev, "", " ")
	os.MkdirAll(filepath.Join(verifDir, "evidence"), 0o755)
	if err := os.WriteFile(filepath.Join(verifDir, "evidence", r.Property+".json"), b, 0o644); err != nil {
		fmt.Printf("ERROR cannot write evidence: %v\n", err)
		return 2
	}
	fmt.Printf("%s tier=%s: %d obligations over %d rules, %d discharged, %d violated, %d undecided, %d known; %d functions in %d packages analysed (%.1fs)\n",
		r.Property, r.Tier, nObl, len(rules), nPass, nFail, nUndec, nKnown, r.P.NFuncs, len(r.P.Pkgs), time.Since(start).Seconds())
	for _, v := range viol {
		fmt.Println(v)
	}
	if len(viol) > 0 {
		return 1
	}
	return 0
}

func sanitize(s string) string {
	return strings.Map(func(r rune) rune {
		if r >= 'a' && r <= 'z' || r >= 'A' && r <= 'Z' || r >= '0' && r <= '9' || r == '-' || r == '_' {
			return r
		}
		return '_'
	}, s)
}
