package an

import (
	"go/token"

	"golang.org/x/tools/go/ssa"
)

// Parameter binding: a private helper that is called from exactly one place
// (and whose value is never taken) is, for the purposes of access paths, part
// of its caller: its parameters denote the actual arguments of that call. This
// is what makes rules phrased over paths ("the loop over fd.Matches") survive
// the extraction of the loop into a helper `replaceMatches(fd.Matches, cl)`.

var bindings map[*ssa.Parameter]ssa.Value

// BuildBindings computes the parameter → actual map of the module.
func (p *Prog) BuildBindings() {
	bindings = map[*ssa.Parameter]ssa.Value{}
	sites := map[*ssa.Function][]ssa.CallInstruction{}
	taken := map[*ssa.Function]bool{}
	// only live code counts: a call from a function nothing reaches (an unused sibling kept around)
	// does not make a helper "shared"
	var roots []*ssa.Function
	if f := p.Func("", "main"); f != nil {
		roots = append(roots, f)
	}
	for _, g := range p.PkgFuncs("patch") {
		if g.Object() != nil && g.Object().Exported() {
			roots = append(roots, g)
		}
	}
	live := p.ReachableModuleFuncs(roots...)
	for _, g := range p.ModuleFuncs() {
		if len(roots) > 0 && !live[g] && !(g.Parent() != nil && live[g.Parent()]) {
			continue
		}
		for _, b := range g.Blocks {
			for _, in := range b.Instrs {
				call, isCall := in.(ssa.CallInstruction)
				if isCall {
					if sc := call.Common().StaticCallee(); sc != nil && InModule(sc) {
						sites[sc] = append(sites[sc], call)
					}
				}
				for i, op := range in.Operands(nil) {
					f, ok := (*op).(*ssa.Function)
					if !ok {
						continue
					}
					if isCall && i == 0 && call.Common().Value == ssa.Value(f) {
						continue
					}
					taken[f] = true
				}
			}
		}
	}
	for f, cs := range sites {
		if len(cs) != 1 || taken[f] || f.Blocks == nil || f.Parent() != nil {
			continue
		}
		if f.Object() != nil && f.Object().Exported() {
			continue // exported API: other callers exist outside the module
		}
		args := cs[0].Common().Args
		if len(args) != len(f.Params) {
			continue
		}
		for i, prm := range f.Params {
			bindings[prm] = args[i]
		}
	}
}

// Actual returns the argument bound to parameter p of a single-call-site
// private helper, or nil.
func Actual(p *ssa.Parameter) ssa.Value { return bindings[p] }

// PathIn is Path seen from anchor: parameters of single-call-site helpers are
// replaced by the arguments they are bound to, transitively, until a value of
// anchor (or an unbound parameter) is reached.
func PathIn(v ssa.Value, anchor *ssa.Function) string { return pathIn(v, anchor, 0) }

func pathIn(v ssa.Value, anchor *ssa.Function, depth int) string {
	if depth > 6 {
		return Path(v)
	}
	switch x := v.(type) {
	case *ssa.Parameter:
		if x.Parent() != anchor {
			if a := bindings[x]; a != nil {
				if p := pathIn(a, anchor, depth+1); p != "" {
					return p
				}
			}
		}
		return x.Name()
	case *ssa.Alloc:
		// spilled parameter of a helper: `*t0 = param`
		if x.Parent() != anchor && x.Comment != "" {
			for _, prm := range x.Parent().Params {
				if prm.Name() == x.Comment {
					if a := bindings[prm]; a != nil {
						if p := pathIn(a, anchor, depth+1); p != "" {
							return p
						}
					}
				}
			}
		}
		return Path(x)
	case *ssa.FieldAddr:
		b := pathIn(x.X, anchor, depth)
		if b == "" {
			return ""
		}
		return b + "." + fieldName(x.X.Type(), x.Field)
	case *ssa.Field:
		b := pathIn(x.X, anchor, depth)
		if b == "" {
			return ""
		}
		return b + "." + fieldName(x.X.Type(), x.Field)
	case *ssa.UnOp:
		if x.Op == token.MUL {
			return pathIn(x.X, anchor, depth)
		}
	case *ssa.IndexAddr:
		b := pathIn(x.X, anchor, depth)
		if b == "" {
			return ""
		}
		return b + "[]"
	case *ssa.Index:
		b := pathIn(x.X, anchor, depth)
		if b == "" {
			return ""
		}
		return b + "[]"
	case *ssa.ChangeType:
		return pathIn(x.X, anchor, depth)
	case *ssa.MakeInterface:
		return pathIn(x.X, anchor, depth)
	}
	return Path(v)
}
