package an

import (
	"fmt"
	"go/token"
	"sort"
	"strings"

	"golang.org/x/tools/go/ssa"
)

// Affine is an integer expression  K + Σ coeff·atom  over named atoms.
type Affine struct {
	Terms map[string]int64
	K     int64
}

// Lin normalises an integer SSA expression built from +, -, constants,
// len(...) of paths / fresh slices, reflect lengths and other values (atoms).
// Two syntactically different computations of the same quantity (two loads of
// the same field, two len() calls on the same slice) get the same atom.
func Lin(v ssa.Value) Affine {
	a := Affine{Terms: map[string]int64{}}
	a.add(v, 1, 0)
	for k, c := range a.Terms {
		if c == 0 {
			delete(a.Terms, k)
		}
	}
	return a
}

func (a *Affine) add(v ssa.Value, sign int64, depth int) {
	if depth > 12 {
		a.Terms["?"+v.Name()] += sign
		return
	}
	if k, ok := ConstInt(v); ok {
		a.K += sign * k
		return
	}
	switch x := v.(type) {
	case *ssa.BinOp:
		switch x.Op {
		case token.ADD:
			a.add(x.X, sign, depth+1)
			a.add(x.Y, sign, depth+1)
			return
		case token.SUB:
			a.add(x.X, sign, depth+1)
			a.add(x.Y, -sign, depth+1)
			return
		}
	case *ssa.Call:
		// len of a slice this function has just made is the length it was made with
		if IsCallTo(x, "builtin:len") {
			if ms, ok := x.Call.Args[0].(*ssa.MakeSlice); ok {
				a.add(ms.Len, sign, depth+1)
				return
			}
		}
	case *ssa.Convert:
		a.add(x.X, sign, depth+1)
		return
	case *ssa.ChangeType:
		a.add(x.X, sign, depth+1)
		return
	}
	a.Terms[AtomKey(v)] += sign
}

// AtomKey names a value so that equal quantities get equal names.
func AtomKey(v ssa.Value) string {
	switch x := v.(type) {
	case *ssa.Call:
		switch {
		case IsCallTo(x, "builtin:len"):
			arg := x.Call.Args[0]
			if ms, ok := arg.(*ssa.MakeSlice); ok {
				l := Lin(ms.Len)
				return "(" + l.String() + ")"
			}
			if p := Path(arg); p != "" {
				return "len(" + p + ")"
			}
			return "len($" + arg.Name() + ")"
		case IsCallTo(x, "(reflect.Value).Len"), IsCallTo(x, "(reflect.Value).NumField"):
			if p := Path(x.Call.Args[0]); p != "" {
				return lastName(CalleeName(x)) + "(" + p + ")"
			}
		case x.Call.IsInvoke() && (x.Call.Method.Name() == "NumField" || x.Call.Method.Name() == "Len"):
			if c, ok := x.Call.Value.(*ssa.Call); ok && IsCallTo(c, "(reflect.Value).Type") {
				if p := Path(c.Call.Args[0]); p != "" {
					return x.Call.Method.Name() + "(Type(" + p + "))"
				}
			}
			if p := Path(x.Call.Value); p != "" {
				return x.Call.Method.Name() + "(" + p + ")"
			}
		}
	case *ssa.Parameter:
		return x.Name()
	case *ssa.UnOp:
		if p := Path(x); p != "" {
			return p
		}
	}
	return "$" + v.Name()
}

func lastName(s string) string {
	if i := strings.LastIndex(s, "."); i >= 0 {
		return s[i+1:]
	}
	return s
}

// Sub returns a - b.
func (a Affine) Sub(b Affine) Affine {
	out := Affine{Terms: map[string]int64{}, K: a.K - b.K}
	for k, c := range a.Terms {
		out.Terms[k] += c
	}
	for k, c := range b.Terms {
		out.Terms[k] -= c
	}
	for k, c := range out.Terms {
		if c == 0 {
			delete(out.Terms, k)
		}
	}
	return out
}

// Subst replaces atom by the expression e.
func (a Affine) Subst(atom string, e Affine) Affine {
	c, ok := a.Terms[atom]
	if !ok {
		return a
	}
	out := Affine{Terms: map[string]int64{}, K: a.K + c*e.K}
	for k, v := range a.Terms {
		if k != atom {
			out.Terms[k] += v
		}
	}
	for k, v := range e.Terms {
		out.Terms[k] += c * v
	}
	for k, v := range out.Terms {
		if v == 0 {
			delete(out.Terms, k)
		}
	}
	return out
}

// IsZero reports whether the expression is identically 0.
func (a Affine) IsZero() bool { return a.K == 0 && len(a.Terms) == 0 }

// IsAtom reports whether the expression is exactly 1·atom.
func (a Affine) IsAtom(atom string) bool {
	return a.K == 0 && len(a.Terms) == 1 && a.Terms[atom] == 1
}

func (a Affine) String() string {
	var ks []string
	for k := range a.Terms {
		ks = append(ks, k)
	}
	sort.Strings(ks)
	var parts []string
	for _, k := range ks {
		parts = append(parts, fmt.Sprintf("%+d*%s", a.Terms[k], k))
	}
	if a.K != 0 || len(parts) == 0 {
		parts = append(parts, fmt.Sprintf("%+d", a.K))
	}
	return strings.Join(parts, "")
}

// IndexMapsOnto reports whether index expression idx, as a function of the
// loop variable, runs over exactly 0 .. n-1 when the loop variable runs from
// the loop's start to its bound with step 1: idx(start) == 0 and idx(bound) == n.
func (il *IndexLoop) IndexMapsOnto(idx ssa.Value, n Affine) bool {
	if il.Step != 1 {
		return false
	}
	// everything is expressed over the header phi; in the range form the
	// index used by the body is phi+1 and the test is on that value
	lv := AtomKey(il.Phi)
	e := Lin(idx)
	if e.Terms[lv] != 1 {
		return false
	}
	start := Affine{Terms: map[string]int64{}, K: il.Start}
	if il.StartVal != nil {
		start = Lin(il.StartVal)
	}
	bound := Lin(il.Bound)
	if il.Index != ssa.Value(il.Phi) {
		start.K--
		bound.K--
	}
	atStart := e.Subst(lv, start)
	atBound := e.Subst(lv, bound)
	return atStart.IsZero() && atBound.Sub(n).IsZero()
}
