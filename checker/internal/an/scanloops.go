package an

import (
	"go/token"
	"strings"

	"golang.org/x/tools/go/ssa"
)

// ScanSpec describes a hand-written scanner's state for analysis A6: how its
// "end of input" state looks and which instructions advance it.
type ScanSpec struct {
	// TokSuffix: path suffix of the current-token field (e.g. ".tok"); EOFTok
	// is the constant it holds at end of input.
	TokSuffix string
	EOFTok    int64
	// EOFFlagSuffix: path suffix of a boolean end-of-input flag (true at EOF).
	EOFFlagSuffix string
	// OffsetSuffix / ContentSuffix: `offset < len(content)` is false at EOF.
	OffsetSuffix, ContentSuffix string
	// AdvanceCalls: callees that consume input (or report EOF again).
	AdvanceCalls []string
}

// EvalAtEOF evaluates a branch condition under the sticky end-of-input
// assumption. decided=false means both arms must be explored.
func (s *ScanSpec) EvalAtEOF(cond ssa.Value) (val, decided bool) {
	inner, pos := StripNot(cond)
	v, ok := s.evalPos(inner)
	if !ok {
		return false, false
	}
	return v == pos, true
}

func (s *ScanSpec) evalPos(v ssa.Value) (bool, bool) {
	if s.EOFFlagSuffix != "" {
		if u, ok := v.(*ssa.UnOp); ok && u.Op == token.MUL && strings.HasSuffix(Path(u.X), s.EOFFlagSuffix) {
			return true, true
		}
	}
	b, ok := v.(*ssa.BinOp)
	if !ok {
		return false, false
	}
	if s.TokSuffix != "" {
		isTok := func(x ssa.Value) bool {
			u, ok := x.(*ssa.UnOp)
			return ok && u.Op == token.MUL && strings.HasSuffix(Path(u.X), s.TokSuffix)
		}
		var k int64
		var have bool
		if isTok(b.X) {
			k, have = ConstInt(b.Y)
		} else if isTok(b.Y) {
			k, have = ConstInt(b.X)
		}
		if have {
			switch b.Op {
			case token.EQL:
				return k == s.EOFTok, true
			case token.NEQ:
				return k != s.EOFTok, true
			}
		}
	}
	if s.OffsetSuffix != "" {
		isOff := func(x ssa.Value) bool {
			u, ok := x.(*ssa.UnOp)
			return ok && u.Op == token.MUL && strings.HasSuffix(Path(u.X), s.OffsetSuffix)
		}
		isLen := func(x ssa.Value) bool {
			c, ok := x.(*ssa.Call)
			return ok && IsCallTo(c, "builtin:len") && strings.HasSuffix(Path(c.Call.Args[0]), s.ContentSuffix)
		}
		if isOff(b.X) && isLen(b.Y) { // offset OP len(content), offset == len at EOF
			switch b.Op {
			case token.LSS, token.NEQ, token.GTR:
				return false, true
			case token.GEQ, token.EQL, token.LEQ:
				return true, true
			}
		}
		if isLen(b.X) && isOff(b.Y) {
			switch b.Op {
			case token.GTR, token.NEQ, token.LSS:
				return false, true
			case token.LEQ, token.EQL, token.GEQ:
				return true, true
			}
		}
	}
	return false, false
}

// directAdvance reports whether instr itself consumes input / moves the
// scanner towards its end state.
func (s *ScanSpec) directAdvance(in ssa.Instruction) bool {
	switch x := in.(type) {
	case ssa.CallInstruction:
		if _, isDefer := x.(*ssa.Defer); isDefer {
			return false
		}
		return IsCallTo(x, s.AdvanceCalls...)
	case *ssa.Store:
		p := Path(x.Addr)
		if s.OffsetSuffix != "" && strings.HasSuffix(p, s.OffsetSuffix) {
			if add, ok := x.Val.(*ssa.BinOp); ok && add.Op == token.ADD {
				if k, ok := ConstInt(add.Y); ok && k > 0 && strings.HasSuffix(Path(add.X), s.OffsetSuffix) {
					return true
				}
			}
		}
		if s.EOFFlagSuffix != "" && strings.HasSuffix(p, s.EOFFlagSuffix) {
			if b, ok := ConstBool(x.Val); ok && b {
				return true
			}
		}
	}
	return false
}

// MustAdvance computes, for the functions of one scanner package, the set of
// functions every path through which advances the scanner (fixed point over
// the package's static calls; a deferred call to such a function counts,
// because it runs before the function returns).
func (s *ScanSpec) MustAdvance(fns []*ssa.Function) map[*ssa.Function]bool {
	set := map[*ssa.Function]bool{}
	for changed := true; changed; {
		changed = false
		for _, f := range fns {
			if set[f] || f.Blocks == nil {
				continue
			}
			adv := s.advancingBlocks(f, set, true)
			// can a Return be reached from entry without passing an advancing block?
			if adv[f.Blocks[0]] {
				set[f] = true
				changed = true
				continue
			}
			reach := Reach([]*ssa.BasicBlock{f.Blocks[0]}, func(b *ssa.BasicBlock, i int) bool { return adv[b.Succs[i]] })
			escapes := false
			for b := range reach {
				if adv[b] {
					continue
				}
				if len(b.Succs) == 0 {
					if _, isRet := b.Instrs[len(b.Instrs)-1].(*ssa.Return); isRet {
						escapes = true
					}
				}
			}
			if !escapes {
				set[f] = true
				changed = true
			}
		}
	}
	return set
}

// advancingBlocks returns the blocks of f that contain an advancing
// instruction (direct, or a call — optionally a deferred call — to a
// must-advance function).
func (s *ScanSpec) advancingBlocks(f *ssa.Function, must map[*ssa.Function]bool, deferCounts bool) map[*ssa.BasicBlock]bool {
	out := map[*ssa.BasicBlock]bool{}
	for _, b := range f.Blocks {
		for _, in := range b.Instrs {
			if s.directAdvance(in) {
				out[b] = true
			}
			if c, ok := in.(ssa.CallInstruction); ok {
				if _, isDefer := c.(*ssa.Defer); isDefer && !deferCounts {
					continue
				}
				if callee := c.Common().StaticCallee(); callee != nil && must[callee] {
					out[b] = true
				}
			}
		}
	}
	return out
}

// LoopAtEOF checks rule (ii): under the sticky end-of-input assumption the loop
// cannot keep running. States are (predecessor, block) pairs so that a loop
// condition held in a variable (`for more := true; more; more = tok == COMMA`)
// is seen as what it is on the way it was reached; the loop fails when the
// state graph inside the loop, pruned by the branch atoms decided at end of
// input, has a cycle reachable from the header. It returns a block on such a
// cycle, or nil.
func (s *ScanSpec) LoopAtEOF(l *Loop) *ssa.BasicBlock {
	type state struct{ pred, blk *ssa.BasicBlock }
	succs := func(st state) []state {
		b := st.blk
		var out []state
		if len(b.Succs) == 0 {
			return nil
		}
		taken := -1 // -1: both
		if iff, ok := b.Instrs[len(b.Instrs)-1].(*ssa.If); ok && len(b.Succs) == 2 {
			cond := ssa.Value(iff.Cond)
			pos := true
			for i := 0; i < 4; i++ {
				inner, p := StripNot(cond)
				if !p {
					pos = !pos
				}
				cond = inner
				if phi, isPhi := cond.(*ssa.Phi); isPhi && phi.Block() == b && st.pred != nil {
					for j, pb := range b.Preds {
						if pb == st.pred {
							cond = phi.Edges[j]
						}
					}
					continue
				}
				break
			}
			if k, isc := ConstBool(cond); isc {
				if k == pos {
					taken = 0
				} else {
					taken = 1
				}
			} else if val, decided := s.evalPos(cond); decided {
				if val == pos {
					taken = 0
				} else {
					taken = 1
				}
			}
		}
		for i, nx := range b.Succs {
			if taken >= 0 && i != taken {
				continue
			}
			if !l.Blocks[nx] {
				continue // leaving the loop
			}
			out = append(out, state{b, nx})
		}
		return out
	}
	const (
		white = 0
		grey  = 1
		black = 2
	)
	color := map[state]int{}
	var bad *ssa.BasicBlock
	var dfs func(st state) bool
	dfs = func(st state) bool {
		color[st] = grey
		for _, nx := range succs(st) {
			switch color[nx] {
			case grey:
				bad = nx.blk
				return true
			case white:
				if dfs(nx) {
					return true
				}
			}
		}
		color[st] = black
		return false
	}
	if dfs(state{nil, l.Header}) {
		return bad
	}
	return nil
}

// LoopProgress checks rule (iii): every cycle through the header passes an
// advancing instruction. Returns false when the header can reach itself
// through blocks none of which advances.
func (s *ScanSpec) LoopProgress(l *Loop, must map[*ssa.Function]bool) bool {
	adv := s.advancingBlocks(l.Header.Parent(), must, false)
	if adv[l.Header] {
		return true
	}
	skip := func(b *ssa.BasicBlock, i int) bool {
		t := b.Succs[i]
		return !l.Blocks[t] || adv[t]
	}
	reach := ReachFromSuccs(l.Header, skip)
	return !reach[l.Header]
}

// CounterLoop recognises loops governed by a monotone counter: the header
// condition is an ordering comparison whose loop-variant part is a header phi
// that every latch edge changes by the same non-zero constant, compared with
// loop-invariant values. Such loops terminate (given no overflow).
func CounterLoop(l *Loop) bool {
	h := l.Header
	if len(h.Instrs) == 0 {
		return false
	}
	iff, ok := h.Instrs[len(h.Instrs)-1].(*ssa.If)
	if !ok {
		return false
	}
	cmp, ok := iff.Cond.(*ssa.BinOp)
	if !ok {
		return false
	}
	switch cmp.Op {
	case token.LSS, token.LEQ, token.GTR, token.GEQ:
	default:
		return false
	}
	// collect loop-variant leaves of the comparison
	var phis []*ssa.Phi
	okShape := true
	var visit func(v ssa.Value, depth int)
	visit = func(v ssa.Value, depth int) {
		if depth > 6 {
			okShape = false
			return
		}
		in, isInstr := v.(ssa.Instruction)
		if !isInstr || !l.Blocks[in.Block()] {
			return // loop invariant (defined outside) or a constant/parameter
		}
		switch x := v.(type) {
		case *ssa.Phi:
			if x.Block() == h {
				phis = append(phis, x)
				return
			}
			okShape = false
		case *ssa.BinOp:
			visit(x.X, depth+1)
			visit(x.Y, depth+1)
		case *ssa.Call:
			if IsCallTo(x, "builtin:len") {
				visit(x.Call.Args[0], depth+1)
				return
			}
			// a call inside the header with loop-invariant arguments (tfile.Line(dr.End))
			for _, a := range CallArgs(x) {
				visit(a, depth+1)
			}
		case *ssa.UnOp, *ssa.FieldAddr, *ssa.Field, *ssa.Convert, *ssa.ChangeType:
			for _, op := range x.(ssa.Instruction).Operands(nil) {
				visit(*op, depth+1)
			}
		default:
			okShape = false
		}
	}
	visit(cmp.X, 0)
	visit(cmp.Y, 0)
	if !okShape || len(phis) != 1 {
		return false
	}
	phi := phis[0]
	var step int64
	have := false
	for i, e := range phi.Edges {
		if !l.Blocks[h.Preds[i]] {
			continue
		}
		add, ok := e.(*ssa.BinOp)
		if !ok || (add.Op != token.ADD && add.Op != token.SUB) || add.X != ssa.Value(phi) {
			return false
		}
		k, ok := ConstInt(add.Y)
		if !ok || k == 0 {
			return false
		}
		if add.Op == token.SUB {
			k = -k
		}
		if have && k != step {
			return false
		}
		step, have = k, true
	}
	if !have {
		return false
	}
	// direction must agree with the comparison: phi on the left with < / <= needs step > 0, etc.
	phiLeft := DependsOn(cmp.X, phi, SliceOpts{ThroughCalls: true})
	up := step > 0
	switch cmp.Op {
	case token.LSS, token.LEQ:
		return phiLeft == up
	default:
		return phiLeft != up
	}
}
