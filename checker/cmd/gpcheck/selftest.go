package main

import (
	"encoding/json"
	"fmt"
	"io/fs"
	"os"
	"os/exec"
	"path/filepath"
	"sort"
	"strings"
	"sync"

	"gpcheck/internal/an"
)

// Control is one analyser self-test: a semantic edit to a scratch copy of the
// current /repo that either breaks the property (kind "violation": the rule it
// targets must report it) or preserves behaviour (kind "benign": every rule
// must stay silent). The analyser is run on the scratch copy; gopatch itself
// is never executed.
type Control struct {
	Name        string `json:"-"`
	Property    string `json:"property"`
	Kind        string `json:"kind"`
	ExpectRule  string `json:"expect_rule,omitempty"`
	Description string `json:"description"`
	Edits       []Edit `json:"edits"`
	Patch       string `json:"patch,omitempty"`  // unified diff, path relative to the verif dir (seeded/<id>/patch.diff)
	Origin      string `json:"origin,omitempty"` // e.g. "seeded/<id>" when derived from an independently written change
}

// Edit replaces the single occurrence of Old in File by New. With All set,
// every occurrence is replaced.
type Edit struct {
	File string `json:"file"`
	Old  string `json:"old"`
	New  string `json:"new"`
	All  bool   `json:"all,omitempty"`
}

// ControlResult is what the self-test records per control.
type ControlResult struct {
	Name     string   `json:"name"`
	Kind     string   `json:"kind"`
	Expect   string   `json:"expect_rule,omitempty"`
	Outcome  string   `json:"outcome"` // detected | missed | silent | noisy | not-applicable | error
	NewFails []string `json:"new_failures,omitempty"`
	Detail   string   `json:"detail,omitempty"`
}

func loadControls(verif, property string) ([]Control, error) {
	own, err := loadControlDir(verif, property, property)
	if err != nil {
		return nil, err
	}
	// controls that apply to every property (independent benign refactorings)
	all, err := loadControlDir(verif, "_all", property)
	if err != nil {
		return nil, err
	}
	return append(own, all...), nil
}

func loadControlDir(verif, sub, property string) ([]Control, error) {
	dir := filepath.Join(verif, "controls", sub)
	ents, err := os.ReadDir(dir)
	if err != nil {
		if os.IsNotExist(err) {
			return nil, nil
		}
		return nil, err
	}
	var out []Control
	for _, e := range ents {
		if !strings.HasSuffix(e.Name(), ".json") {
			continue
		}
		b, err := os.ReadFile(filepath.Join(dir, e.Name()))
		if err != nil {
			return nil, err
		}
		var c Control
		if err := json.Unmarshal(b, &c); err != nil {
			return nil, fmt.Errorf("%s: %w", e.Name(), err)
		}
		c.Name = strings.TrimSuffix(e.Name(), ".json")
		c.Property = property
		out = append(out, c)
	}
	sort.Slice(out, func(i, j int) bool { return out[i].Name < out[j].Name })
	return out, nil
}

// copyRepo copies the Go sources of repo (no .git, no testdata) to dst.
func copyRepo(repo, dst string) error {
	return filepath.WalkDir(repo, func(path string, d fs.DirEntry, err error) error {
		if err != nil {
			return err
		}
		rel, _ := filepath.Rel(repo, path)
		if d.IsDir() {
			base := d.Name()
			if rel != "." && (strings.HasPrefix(base, ".") || base == "testdata" || base == "docs" || base == "examples") {
				return filepath.SkipDir
			}
			return os.MkdirAll(filepath.Join(dst, rel), 0o755)
		}
		if !(strings.HasSuffix(path, ".go") && !strings.HasSuffix(path, "_test.go")) && d.Name() != "go.mod" && d.Name() != "go.sum" {
			return nil
		}
		b, err := os.ReadFile(path)
		if err != nil {
			return err
		}
		return os.WriteFile(filepath.Join(dst, rel), b, 0o644)
	})
}

func applyEdits(dir string, edits []Edit) (applicable bool, err error) {
	for _, e := range edits {
		p := filepath.Join(dir, e.File)
		b, err := os.ReadFile(p)
		if err != nil {
			return false, nil
		}
		s := string(b)
		n := strings.Count(s, e.Old)
		if n == 0 || (n != 1 && !e.All) {
			return false, nil
		}
		if e.All {
			s = strings.ReplaceAll(s, e.Old, e.New)
		} else {
			s = strings.Replace(s, e.Old, e.New, 1)
		}
		if err := os.WriteFile(p, []byte(s), 0o644); err != nil {
			return false, err
		}
	}
	return true, nil
}

// emitted is what `gpcheck -emit` prints.
type emitted struct {
	LoadError string          `json:"load_error,omitempty"`
	Failing   []an.Obligation `json:"failing"`
}

func analyseDir(dir, property string) (*emitted, error) {
	exe, _ := os.Executable()
	cmd := exec.Command(exe, "-repo", dir, "-property", property, "-emit")
	cmd.Env = os.Environ()
	out, err := cmd.Output()
	if err != nil {
		return nil, fmt.Errorf("analyser on %s: %v: %s", dir, err, tail(string(out)))
	}
	var em emitted
	if err := json.Unmarshal(out, &em); err != nil {
		return nil, fmt.Errorf("analyser output: %v: %s", err, tail(string(out)))
	}
	return &em, nil
}

func tail(s string) string {
	if len(s) > 400 {
		return s[len(s)-400:]
	}
	return s
}

func runControl(repo, verifDir string, c Control, base map[string]bool) ControlResult {
	res := ControlResult{Name: c.Name, Kind: c.Kind, Expect: c.ExpectRule}
	tmp, err := os.MkdirTemp("", "gpcheck-ctl-")
	if err != nil {
		res.Outcome, res.Detail = "error", err.Error()
		return res
	}
	defer os.RemoveAll(tmp)
	if err := copyRepo(repo, tmp); err != nil {
		res.Outcome, res.Detail = "error", err.Error()
		return res
	}
	ok, err := applyEdits(tmp, c.Edits)
	if ok && err == nil && c.Patch != "" {
		cmd := exec.Command("git", "apply", "--whitespace=nowarn", filepath.Join(verifDir, c.Patch))
		cmd.Dir = tmp
		if out, perr := cmd.CombinedOutput(); perr != nil {
			ok = false
			_ = out
		}
	}
	if err != nil {
		res.Outcome, res.Detail = "error", err.Error()
		return res
	}
	if !ok {
		res.Outcome, res.Detail = "not-applicable", "the edit no longer applies to the current source"
		return res
	}
	em, err := analyseDir(tmp, c.Property)
	if err != nil {
		res.Outcome, res.Detail = "error", err.Error()
		return res
	}
	if em.LoadError != "" {
		res.Outcome, res.Detail = "error", "variant does not type-check: "+em.LoadError
		return res
	}
	hit := false
	for _, o := range em.Failing {
		if base[o.Key] {
			continue
		}
		res.NewFails = append(res.NewFails, o.Key)
		if c.ExpectRule == "" || o.Rule == c.ExpectRule {
			hit = true
		}
	}
	switch c.Kind {
	case "violation":
		if hit {
			res.Outcome = "detected"
		} else {
			res.Outcome = "missed"
		}
	default:
		if len(res.NewFails) == 0 {
			res.Outcome = "silent"
		} else {
			res.Outcome = "noisy"
		}
	}
	return res
}

// selfTest runs every control of the property against a scratch copy of the
// current repo, at most par at a time, one analyser process per variant.
func selfTest(repo, verif, property string, baseFailing []an.Obligation, only string) ([]ControlResult, error) {
	ctrls, err := loadControls(verif, property)
	if err != nil {
		return nil, err
	}
	base := map[string]bool{}
	for _, o := range baseFailing {
		base[o.Key] = true
	}
	results := make([]ControlResult, len(ctrls))
	sem := make(chan struct{}, 8)
	var wg sync.WaitGroup
	for i, c := range ctrls {
		if only != "" && c.Name != only {
			results[i] = ControlResult{Name: c.Name, Kind: c.Kind, Outcome: "skipped"}
			continue
		}
		wg.Add(1)
		go func(i int, c Control) {
			defer wg.Done()
			sem <- struct{}{}
			defer func() { <-sem }()
			results[i] = runControl(repo, verif, c, base)
		}(i, c)
	}
	wg.Wait()
	return results, nil
}
