// gpcheck decides structural necessary conditions of the gopatch properties
// C01..C19 from /repo's current source (type-checked packages, go/ssa form,
// control-flow and call graphs). It never runs gopatch. See /verif/DESIGN.md.
package main

import (
	"encoding/json"
	"flag"
	"fmt"
	"os"
	"path/filepath"
	"strconv"
	"time"

	"gpcheck/internal/an"
	"gpcheck/internal/rules"
)

func main() {
	repo := flag.String("repo", "/repo", "directory of the gopatch working tree to analyse")
	verif := flag.String("verif", "", "directory holding known_findings.json and evidence/ (default: parent of the checker)")
	prop := flag.String("property", "", "property id (C01..C19)")
	tier := flag.String("tier", "quick", "quick | thorough")
	explain := flag.String("explain", "", "print a replay file and re-evaluate its obligation on the current tree")
	list := flag.Bool("list", false, "list the properties that have rules")
	emit := flag.Bool("emit", false, "print the failing obligations as JSON and exit 0 (used by the self-test)")
	control := flag.String("control", "", "thorough tier: run only this control of the self-test corpus")
	noSelf := flag.Bool("no-selftest", false, "thorough tier: skip the analyser self-test")
	dumpSchema := flag.Bool("dump-schema", false, "print the struct types of the analysed tree in baseline-schema form (maintenance: regenerates internal/rules/baseline_schema.json)")
	flag.Parse()
	if *dumpSchema {
		an.BaselineSchema, an.BaselineParams = nil, nil
		p, err := an.Load(*repo)
		if err != nil {
			fmt.Println("ERROR", err)
			os.Exit(2)
		}
		b, _ := json.MarshalIndent(map[string]interface{}{"structs": p.DumpSchema(), "params": p.DumpParams()}, "", " ")
		fmt.Println(string(b))
		return
	}

	if *verif == "" {
		exe, _ := os.Executable()
		*verif = filepath.Dir(filepath.Dir(exe))
		if _, err := os.Stat(filepath.Join(*verif, "known_findings.json")); err != nil {
			*verif = "/verif"
		}
	}
	if *list {
		for _, id := range rules.IDs() {
			fmt.Println(id)
		}
		return
	}
	var want *an.Obligation
	if *explain != "" {
		b, err := os.ReadFile(*explain)
		if err != nil {
			fmt.Println("ERROR", err)
			os.Exit(2)
		}
		var rf struct {
			Property   string        `json:"property"`
			Obligation an.Obligation `json:"obligation"`
		}
		if err := json.Unmarshal(b, &rf); err != nil {
			fmt.Println("ERROR", err)
			os.Exit(2)
		}
		*prop = rf.Property
		want = &rf.Obligation
		fmt.Printf("recorded: %s %s\n  key    %s\n  at     %s\n  reason %s\n", want.Verdict, want.Rule, want.Key, want.Pos, want.Reason)
	}
	spec := rules.Get(*prop)
	if spec == nil {
		fmt.Printf("ERROR unknown property %q\n", *prop)
		os.Exit(2)
	}
	seed := 0
	if s := os.Getenv("VERIF_SEED"); s != "" {
		seed, _ = strconv.Atoi(s)
	}
	start := time.Now()
	code := func() (code int) {
		defer func() {
			if e := recover(); e != nil {
				// an analyser panic is a broken check, reported as such
				fmt.Printf("ERROR analyser panic: %v\n", e)
				panic(e)
			}
		}()
		p, err := an.Load(*repo)
		if err != nil && *emit {
			b, _ := json.Marshal(emitted{LoadError: err.Error()})
			fmt.Println(string(b))
			return 0
		}
		if err != nil {
			fmt.Printf("ERROR %v\n", err)
			// A tree that does not load or type-check cannot be decided.
			fmt.Printf("VIOLATION property=%s replay=%s\n", *prop, writeLoadFailure(*verif, *prop, err))
			return 1
		}
		r := an.NewRun(p, *prop, *tier)
		spec.Run(r)
		if want != nil {
			found := false
			for _, o := range r.Obls {
				if o.Key == want.Key {
					found = true
					fmt.Printf("current : %s at %s\n  reason %s\n", o.Verdict, o.Pos, o.Reason)
				}
			}
			if !found {
				fmt.Println("current : no obligation with this key on the current tree")
			}
			return 0
		}
		if *emit {
			b, _ := json.Marshal(emitted{Failing: r.Failing()})
			fmt.Println(string(b))
			return 0
		}
		strictFail := false
		if *tier == "thorough" {
			thorough(r, spec, *repo, *verif, *control, *noSelf, &strictFail)
		}
		code = r.Finish(*verif, start, seed, spec.Explanation, spec.Trusted, spec.Assumptions)
		if code == 0 && strictFail && os.Getenv("VERIF_STRICT_SELFTEST") == "1" {
			fmt.Println("ERROR analyser self-test failed (see SELFTEST lines); VERIF_STRICT_SELFTEST=1")
			return 2
		}
		return code
	}()
	os.Exit(code)
}

func writeLoadFailure(verif, prop string, err error) string {
	dir := filepath.Join(verif, "evidence", "replay")
	os.MkdirAll(dir, 0o755)
	path := filepath.Join(dir, prop+"-load-1.json")
	b, _ := json.MarshalIndent(map[string]any{"property": prop, "obligation": an.Obligation{
		Property: prop, Rule: "load", Key: "load|packages", Verdict: an.Undecided, Reason: err.Error()}}, "", " ")
	os.WriteFile(path, b, 0o644)
	return path
}

// thorough adds, to the quick rules: the analyser self-test against scratch
// copies of the current source (controls corpus) and the whole-module sweeps a
// property registers. Results are recorded in the evidence; they never turn a
// passing tree into a VIOLATION.
func thorough(r *an.Run, spec *rules.Spec, repo, verif, only string, noSelf bool, strictFail *bool) {
	if spec.Thorough != nil {
		spec.Thorough(r)
	}
	if noSelf {
		return
	}
	res, err := selfTest(repo, verif, r.Property, r.Failing(), only)
	if err != nil {
		fmt.Printf("SELFTEST error: %v\n", err)
		r.Extra["selftest_error"] = err.Error()
		return
	}
	counts := map[string]int{}
	for _, c := range res {
		counts[c.Outcome]++
		switch c.Outcome {
		case "missed", "noisy", "error":
			*strictFail = true
			fmt.Printf("SELFTEST %s %s/%s expect=%s new=%v %s\n", c.Outcome, r.Property, c.Name, c.Expect, c.NewFails, c.Detail)
		}
	}
	fmt.Printf("SELFTEST %s: %d controls: %v\n", r.Property, len(res), counts)
	r.Extra["selftest"] = map[string]any{
		"what":     "analyser self-test: each control is one semantic edit applied to a scratch copy of the current /repo (removed afterwards) and analysed statically; seeded violations must be reported by the rule they target, benign refactorings must be silent; gopatch is never executed",
		"controls": len(res), "outcomes": counts, "results": res,
	}
}
