package main

import (
	"fmt"

	"golang.org/x/tools/go/ssa"

	"gpcheck/internal/an"
)

func dumpSlices(p *an.Prog) {
	for _, f := range p.ModuleFuncs() {
		for _, b := range f.Blocks {
			for _, in := range b.Instrs {
				if s, ok := in.(*ssa.Slice); ok {
					lo, hi := "-", "-"
					if s.Low != nil {
						lo = an.Describe(s.Low)
					}
					if s.High != nil {
						hi = an.Describe(s.High)
					}
					fmt.Printf("%s\t%s\t%s [%s : %s] %s\n", p.Pos(s.Pos()), an.FuncName(f), an.Describe(s.X), lo, hi, s.X.Type())
				}
			}
		}
	}
}
