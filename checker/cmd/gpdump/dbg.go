package main

import (
	"fmt"

	"golang.org/x/tools/go/ssa"

	"gpcheck/internal/an"
)

func dbg(p *an.Prog) {
	f := p.Func("", "findGoFiles").AnonFuncs[0]
	for _, b := range f.Blocks {
		for _, in := range b.Instrs {
			if bo, ok := in.(*ssa.BinOp); ok {
				fmt.Printf("%s: X=%T Y=%T\n", bo, bo.X, bo.Y)
			}
		}
	}
}
