package main

import (
	"fmt"

	"golang.org/x/tools/go/ssa"

	"gpcheck/internal/an"
)

func dbg(p *an.Prog) {
	f := p.Func("", "findGoFiles").AnonFuncs[0]
	for _, b := range f.Blocks {
		for _, in := range b.Instrs {
			if bo, ok := in.(*ssa.BinOp); ok {
				fmt.Printf("%s: X=%T Y=%T\n", bo, bo.X, bo.Y)
			}
		}
	}
}

func dumpBeliefs(p *an.Prog) {
	for _, f := range p.ModuleFuncs() {
		for _, b := range f.Blocks {
			for _, in := range b.Instrs {
				switch x := in.(type) {
				case *ssa.Panic:
					fmt.Printf("PANIC\t%s\t%s\t%s\n", an.FuncPkgPath(f), an.FuncName(f), panicMessage(x))
				case *ssa.TypeAssert:
					if !x.CommaOk {
						fmt.Printf("ASSERT\t%s\t%s\t%s <- %s\n", an.FuncPkgPath(f), an.FuncName(f), an.ShortType(x.AssertedType), operandKind(x.X))
					}
				}
			}
		}
	}
}

func panicMessage(p *ssa.Panic) string {
	v := p.X
	if mi, ok := v.(*ssa.MakeInterface); ok {
		v = mi.X
	}
	if s, ok := an.ConstString(v); ok {
		return s
	}
	if c, ok := v.(*ssa.Call); ok && an.IsCallTo(c, "fmt.Sprintf") {
		if s, ok := an.ConstString(c.Call.Args[0]); ok {
			return s
		}
	}
	return "?"
}

func operandKind(v ssa.Value) string {
	switch x := v.(type) {
	case *ssa.Call:
		return "call:" + an.TrimModule(an.CalleeName(x))
	case *ssa.Parameter:
		return "param:" + an.ShortType(x.Type())
	}
	return "value:" + an.ShortType(v.Type())
}
