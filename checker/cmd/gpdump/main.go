// gpdump is a development aid: it lists constructs of /repo that rules are
// written against (panics, type assertions, reflect.Set sites, loops).
package main

import (
	"fmt"
	"os"

	"golang.org/x/tools/go/ssa"

	"gpcheck/internal/an"
)

func main() {
	p, err := an.Load("/repo")
	if err != nil {
		fmt.Println(err)
		os.Exit(1)
	}
	what := os.Args[1]
	if what == "beliefs" {
		dumpBeliefs(p)
		return
	}
	if what == "slices" {
		dumpSlices(p)
		return
	}
	if what == "dbg" {
		dbg(p)
		return
	}
	for _, f := range p.ModuleFuncs() {
		for _, b := range f.Blocks {
			for _, in := range b.Instrs {
				switch x := in.(type) {
				case *ssa.Panic:
					if what == "panic" {
						fmt.Printf("%s\t%s\t%s\n", p.Pos(x.Pos()), an.FuncName(f), an.Describe(x.X))
					}
				case *ssa.TypeAssert:
					if what == "assert" && !x.CommaOk {
						fmt.Printf("%s\t%s\t%s -> %s\n", p.Pos(x.Pos()), an.FuncName(f), an.Describe(x.X), an.ShortType(x.AssertedType))
					}
				case ssa.CallInstruction:
					if what == "set" && an.IsCallTo(x, "(reflect.Value).Set") {
						fmt.Printf("%s\t%s\n", p.Pos(x.Pos()), an.FuncName(f))
					}
				}
			}
		}
		if what == "loops" {
			for _, l := range an.Loops(f) {
				il := an.AsIndexLoop(l)
				kind := "state"
				if il != nil {
					kind = "index bound=" + an.Describe(il.Bound)
				}
				for _, in := range l.Header.Instrs {
					if _, ok := in.(*ssa.Next); ok {
						kind = "range-iter"
					}
				}
				fmt.Printf("%s\t%s\tblocks=%d\t%s\n", p.Pos(l.Header.Instrs[len(l.Header.Instrs)-1].Pos()), an.FuncName(f), len(l.Blocks), kind)
			}
		}
	}
}
