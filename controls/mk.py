#!/usr/bin/env python3
"""Helper used while authoring controls: mk.py writes /verif/controls/<Cxx>/<name>.json.
The JSON files are the artefact the checker reads; this script only saves typing."""
import json, os, sys
def seed(prop, seedid, rule, desc):
    """control derived from an independently written seeded change (/verif/seeded/<seedid>/patch.diff)"""
    d = os.path.join(os.path.dirname(os.path.abspath(__file__)), prop)
    os.makedirs(d, exist_ok=True)
    c = {"property": prop, "kind": "violation", "description": desc, "edits": [], "patch": "seeded/%s/patch.diff" % seedid,
         "origin": "seeded/" + seedid}
    if rule: c["expect_rule"] = rule
    json.dump(c, open(os.path.join(d, "s-" + seedid + ".json"), "w"), indent=1)

def ctl(prop, name, kind, rule, desc, *edits, origin=None):
    d = os.path.join(os.path.dirname(os.path.abspath(__file__)), prop)
    os.makedirs(d, exist_ok=True)
    es = []
    for e in edits:
        f, old, new = e[:3]
        x = {"file": f, "old": old, "new": new}
        if len(e) > 3 and e[3]: x["all"] = True
        es.append(x)
    c = {"property": prop, "kind": kind, "description": desc, "edits": es}
    if rule: c["expect_rule"] = rule
    if origin: c["origin"] = origin
    json.dump(c, open(os.path.join(d, name + ".json"), "w"), indent=1)
